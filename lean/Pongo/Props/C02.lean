/-
C02 — autoescape: context strings never reach the output unescaped.

Theorems about the model's escape-on-output decision (`printed`, used by `{{ }}` and by
`cycle`), `firstof`, the filter table (no filter marks its result safe), the engine's own
text for values that are not printed as strings, and — regenerated from `/repo` on every
run — the list of places that mark a value safe and of functions that write a value's text.
What `escape` guarantees about its output is proved in `Props/C17.lean` and reused here.
-/
import Pongo.Model.Exec
import Pongo.Props.C17
import Pongo.Gen.SafeSites
import Pongo.Lemmas.CleanInterp
import Pongo.Lemmas.ParseAll
import Pongo.Lemmas.LexPos
import Pongo.Gen.LexTables

namespace Pongo.C02
open Pongo

/-! ### the escape-on-output decision -/

/-- the only ways a printed value escapes escaping: the explicit opt-outs (`safe` filter on
    the printed expression, `autoescape off`, a value Go code or the HTML-aware truncation
    filters marked safe) -/
def OptOut (safeFilter autoescape : Bool) (v : V) : Prop :=
  safeFilter = true ∨ autoescape = false ∨ v.safe = true

/-- whatever is printed as text (string kind, or any `fmt.Stringer`) without an opt-out is
    the `escape` of its text -/
theorem printed_text_is_escaped (sf ae : Bool) (v : V)
    (htext : v.v.isString = true ∨ v.v.isStringer = true) (hno : ¬ OptOut sf ae v) :
    printed sf ae v = escapeHtml v.v.toS := by
  unfold OptOut at hno
  have h1 : sf = false := by cases sf <;> simp_all
  have h2 : ae = true := by cases ae <;> simp_all
  have h3 : v.safe = false := by cases h : v.safe <;> simp_all
  unfold printed
  rcases htext with h | h <;> simp [h1, h2, h3, h]

/-- … and therefore carries none of `< > " '`, and every `&` in it starts one of the five entities -/
theorem printed_text_has_no_raw_special (sf ae : Bool) (v : V)
    (htext : v.v.isString = true ∨ v.v.isStringer = true) (hno : ¬ OptOut sf ae v) :
    (∀ c ∈ printed sf ae v, c ∉ C17.specials) ∧
    ∃ chunks : List Bytes, printed sf ae v = chunks.flatten ∧
      ∀ ch ∈ chunks, ch ∈ C17.entities ∨ ∃ x, ch = [x] ∧ x ≠ 0x26 ∧ x ∉ C17.specials := by
  rw [printed_text_is_escaped sf ae v htext hno]
  exact ⟨C17.escape_no_special _, C17.escape_amp_entities _⟩

/-- conversely: when what is printed differs from the escaped text, an opt-out was used or the
    value is not text at all (then `String()` is the engine's own rendering, see below) -/
theorem raw_print_needs_optout (sf ae : Bool) (v : V) (h : printed sf ae v ≠ escapeHtml v.v.toS) :
    OptOut sf ae v ∨ (v.v.isString = false ∧ v.v.isStringer = false) := by
  by_cases ho : OptOut sf ae v
  · exact Or.inl ho
  · right
    cases hs : v.v.isString <;> cases hg : v.v.isStringer
    · exact ⟨rfl, rfl⟩
    · exact absurd (printed_text_is_escaped sf ae v (Or.inr hg) ho) h
    · exact absurd (printed_text_is_escaped sf ae v (Or.inl hs) ho) h
    · exact absurd (printed_text_is_escaped sf ae v (Or.inl hs) ho) h

/-- `firstof` escapes whatever it prints — any kind of value, also one Go code marked safe — unless
    the argument carries the `safe` filter or autoescape is off -/
theorem firstof_is_escaped (sf ae : Bool) (v : V) (h : sf = false ∧ ae = true) :
    firstofText sf ae v = escapeHtml v.v.toS ∧ ∀ c ∈ firstofText sf ae v, c ∉ C17.specials := by
  have : firstofText sf ae v = escapeHtml v.v.toS := by simp [firstofText, h.1, h.2]
  exact ⟨this, by rw [this]; exact C17.escape_no_special _⟩

/-- the global opt-out, for contrast: with autoescape off (`SetAutoescape(false)`, or inside an
    `autoescape off` region) a printed value is its text as it is — which is why the end-to-end
    result below carries the hypothesis that the package default is on -/
theorem switch_off_prints_raw (sf : Bool) (v : V) : printed sf false v = v.v.toS ∧ firstofText sf false v = v.v.toS := by
  simp [printed, firstofText]

/-- escaping is piecewise: printing a text in pieces (looping over its characters, printing the
    halves of a concatenation) gives the escape of the whole -/
theorem escape_append (a c : Bytes) : escapeHtml (a ++ c) = escapeHtml a ++ escapeHtml c := by
  simp [escapeHtml_eq_flatMap]

/-- the engine's own text for a container does not depend on what the container holds:
    no string leaf can surface through it -/
theorem container_text_ignores_contents :
    (∀ ty xs ys, (Val.list ty xs).toS = (Val.list ty ys).toS) ∧
    (∀ ty xs ys, (Val.arr ty xs).toS = (Val.arr ty ys).toS) ∧
    (∀ ty xs ys, (Val.smap ty xs).toS = (Val.smap ty ys).toS) ∧
    (∀ ty xs ys, (Val.imap ty xs).toS = (Val.imap ty ys).toS) ∧
    (∀ n f g p q, (Val.struct n f p).toS = (Val.struct n g q).toS) ∧
    (∀ ty xs ys, (Val.ptr (Val.list ty xs)).toS = (Val.ptr (Val.list ty ys)).toS) ∧
    (∀ n f g p q, (Val.ptr (Val.struct n f p)).toS = (Val.ptr (Val.struct n g q)).toS) := by
  refine ⟨?_, ?_, ?_, ?_, ?_, ?_, ?_⟩ <;> intros <;> rfl

-- non-vacuity
example : printed false true ⟨.str b!"<a href='x'>&", false⟩ = b!"&lt;a href=&#39;x&#39;&gt;&amp;" := by
  rw [printed_text_is_escaped _ _ _ (Or.inl (by decide)) (by simp [OptOut]), escapeHtml_eq_flatMap]; decide
example : printed false true ⟨.stringer (.int 42) b!"<42>", false⟩ = b!"&lt;42&gt;" := by
  rw [printed_text_is_escaped _ _ _ (Or.inr (by decide)) (by simp [OptOut]), escapeHtml_eq_flatMap]; decide
example : printed true true ⟨.str b!"<b>", false⟩ = b!"<b>" := by decide
example : printed false true ⟨.list b!"[]string" [.str b!"<b>"], false⟩ = b!"<[]string Value>" := by
  decide

/-! ### filters never mark their result safe -/

/-- a filter result that is marked safe is the input or the parameter handed through unchanged -/
def NoMark (i p : V) (res : FRes) : Prop := ∀ r, res = .ok r → r.safe = true → r = i ∨ r = p

theorem nm_ite {i p : V} {c : Prop} [Decidable c] {a b : FRes} (ha : NoMark i p a) (hb : NoMark i p b) :
    NoMark i p (if c then a else b) := by split <;> assumption
theorem nm_mkStr {i p : V} (s : Bytes) : NoMark i p (mkStr s) := by
  intro r h hs; simp only [mkStr, FRes.ok.injEq] at h; subst h; simp at hs
theorem nm_mkInt {i p : V} (s : Int64) : NoMark i p (mkInt s) := by
  intro r h hs; simp only [mkInt, FRes.ok.injEq] at h; subst h; simp at hs
theorem nm_mkBool {i p : V} (s : Bool) : NoMark i p (mkBool s) := by
  intro r h hs; simp only [mkBool, FRes.ok.injEq] at h; subst h; simp at hs
theorem nm_false {i p : V} (v : Val) : NoMark i p (.ok ⟨v, false⟩) := by
  intro r h hs; simp only [FRes.ok.injEq] at h; subst h; simp at hs
theorem nm_in {i p : V} : NoMark i p (.ok i) := by
  intro r h _; simp only [FRes.ok.injEq] at h; exact Or.inl h.symm
theorem nm_param {i p : V} : NoMark i p (.ok p) := by
  intro r h _; simp only [FRes.ok.injEq] at h; exact Or.inr h.symm
theorem nm_err {i p : V} (m : String) : NoMark i p (.err m) := by intro r h; cases h
theorem nm_unsup {i p : V} : NoMark i p .unsupported := by intro r h; cases h

/-- **every modelled filter, every input and parameter**: the result is unsafe (so it is escaped
    again when printed) unless it is the input or the parameter itself, already safe before -/
theorem filter_never_marks_safe (name : Bytes) (i p : V) : NoMark i p (applyFilter name i p) := by
  unfold applyFilter
  simp only []
  repeat' (first
    | apply nm_ite
    | exact nm_mkStr _ | exact nm_mkInt _ | exact nm_mkBool _ | exact nm_false _
    | exact nm_in | exact nm_param | exact nm_err _ | exact nm_unsup
    | split)

/-- in particular a filter applied to unsafe input with an unsafe parameter yields an unsafe result -/
theorem filter_of_unsafe_is_unsafe (name : Bytes) (i p r : V) (hi : i.safe = false) (hp : p.safe = false)
    (h : applyFilter name i p = .ok r) : r.safe = false := by
  cases hs : r.safe
  · rfl
  · rcases filter_never_marks_safe name i p r h hs with e | e <;> subst e <;> simp_all

example : applyFilter b!"safe" ⟨.str b!"<b>", true⟩ ⟨.nil, false⟩ = .ok ⟨.str b!"<b>", true⟩ := by
  simp [applyFilter]

/-! ### the whole interpreter: no context string reaches the output unescaped

One simultaneous induction over the twenty functions of the interpreter (`Lemmas/CleanInterp.lean`)
shows that the following invariant is kept by every expression and every node, for every fuel,
state and context, on success and on failure:

* the output is a concatenation of *clean chunks*: template text (`L`), the `escape` of something,
  or the engine's own rendering of a value that is not text;
* every `*Value` box in any context that is marked safe holds clean text (what a macro call or
  `block.Super` rendered), an in-template list literal, or a byte of such text — so the safe flag
  never sits on a context string;
* `autoescape` is on in every context.

The theorem covers the opt-out-free fragment `NodeOK`: no `safe` filter, no `autoescape off`,
no Go function in the context, and — named limits of this proof — no `filter` tag (whose
parameters are written raw: known finding D10).  `spaceless` is inside (it only deletes whitespace,
`Clean.thin`), and so are lazily computed include names: the template they name is compiled while
executing, from what the loaders hold, which `SetupOK` requires to be opt-out-free sources.  `L` is any predicate the literal text of the templates involved satisfies. -/

section interpreter
variable (T : LexTables) (cfg : SetCfg) (g : Env) (L : Bytes → Prop)

/-- **Execution keeps the autoescape invariant**, whatever the template does and whether or not it
    fails half-way (the unbuffered entry point is the one that shows partial output). -/
theorem execution_keeps_autoescape_invariant (hS : SetupOK T cfg L) (hg : EnvOK L g) (fuel ti : Nat) (ctx : Env) (hctx : EnvOK L ctx)
    (σ : ES) (hσ : Inv L σ) :
    Inv L (stateAfter ((executeTplUnbuffered T cfg g fuel ti ctx).run σ)) := by
  have h := (allSat (T := T) (cfg := cfg) hS hg fuel).executeTplUnbuffered ti ctx hctx σ hσ
  simp only [EStateM.run]
  cases hr : executeTplUnbuffered T cfg g fuel ti ctx σ with
  | ok a σ' => rw [hr] at h; exact h.1
  | error e σ' => rw [hr] at h; exact h

/-- a world of opt-out-free templates, an empty output: the start of an execution -/
theorem initial_state_ok (cs : CState) (hw : WorldOK L cs) : Inv L { cs := cs } :=
  ⟨Clean.nil L, (by intro f hf; cases hf), hw, (by intro e he; cases he)⟩

/-- **Autoescape, end to end**: everything an execution writes — also what it wrote before failing —
    is a concatenation of chunks each of which is literal text of a template, the `escape` of
    something (no `<`, `>`, `"`, `'`; every `&` starts an entity), or the engine's own text for a
    value that is not text — in each case possibly with some whitespace bytes deleted (`c` is a
    subsequence of the base chunk `c'` with the same non-whitespace bytes: what `spaceless` does).
    No context string is among them. -/
theorem output_is_clean (hS : SetupOK T cfg L) (hg : EnvOK L g) (fuel ti : Nat) (ctx : Env) (hctx : EnvOK L ctx) (cs : CState) (hw : WorldOK L cs) :
    ∃ chunks : List Bytes,
      (stateAfter ((executeTplUnbuffered T cfg g fuel ti ctx).run { cs := cs })).out = chunks.flatten ∧
      ∀ c ∈ chunks, ∃ c', c.Sublist c' ∧ nonWs c = nonWs c' ∧
        (L c' ∨
         (∃ x, c' = escapeHtml x ∧ (∀ b ∈ c, b ∉ C17.specials)) ∨
         (∃ v : Val, v.isString = false ∧ v.isStringer = false ∧ c' = v.toS)) := by
  obtain ⟨chunks, he, hc⟩ := (execution_keeps_autoescape_invariant T cfg g L hS hg fuel ti ctx hctx _ (initial_state_ok L cs hw)).hout
  refine ⟨chunks, he, fun c hcm => ?_⟩
  obtain ⟨c', hs, hn, hk⟩ := (hc c hcm).base
  refine ⟨c', hs, hn, ?_⟩
  rcases hk with h | ⟨x, rfl⟩ | h
  · exact Or.inl h
  · exact Or.inr (Or.inl ⟨x, rfl, fun b hb => C17.escape_no_special x b (hs.subset hb)⟩)
  · exact Or.inr (Or.inr h)

/-- the same for a single node and for a single expression, in any state the invariant holds in -/
theorem node_keeps_autoescape_invariant (hS : SetupOK T cfg L) (hg : EnvOK L g) (fuel : Nat) (n : Node) (hn : NodeOK L n) (σ : ES) (hσ : Inv L σ) :
    Inv L (stateAfter ((execNode T cfg g fuel n).run σ)) := by
  have h := (allSat (T := T) (cfg := cfg) hS hg fuel).execNode n hn σ hσ
  simp only [EStateM.run]
  cases hr : execNode T cfg g fuel n σ with
  | ok a σ' => rw [hr] at h; exact h.1
  | error e σ' => rw [hr] at h; exact h

/-- **a value marked safe is never a context string**: whatever an opt-out-free expression
    evaluates to, if it is marked safe it is clean text, a list literal or a byte of clean text -/
theorem safe_values_are_clean (hS : SetupOK T cfg L) (hg : EnvOK L g) (fuel : Nat) (e : Expr) (he : ExprOK e) (σ σ' : ES) (hσ : Inv L σ) (v : V)
    (h : (eval T cfg g fuel e).run σ = .ok v σ') : v.safe = true → SafeShape L v.v := by
  have h0 := (allSat (T := T) (cfg := cfg) hS hg fuel).eval e he σ hσ
  simp only [EStateM.run] at h
  rw [h] at h0
  exact h0.2.2

/-! ### from the source to the fragment: expressions

The theorems above speak about opt-out-free trees (`ExprOK`).  The parser-wide induction of
`Lemmas/ParseAll.lean` links them to what is *written*: an expression parsed from tokens none of
which is the identifier `safe` is opt-out-free, whatever else it contains and however deep its
filter calls are nested. -/

/-- **No `safe` written, no `safe` in the tree**: every expression the parser accepts from a token
    list without the identifier `safe` lies in the fragment the autoescape theorems cover. -/
theorem parsed_expression_is_optout_free (cfg : SetCfg) (toks : List Tok) (fuel : Nat) (e : Expr) (p' : PS)
    (hno : ∀ t ∈ toks, t.typ = .ident → t.val ≠ b!"safe")
    (h : parseExpression cfg fuel ⟨toks, toks⟩ = .ok (e, p')) : ExprOK e :=
  ((allParse cfg toks (Q := fun n => n ≠ b!"safe")
      (fun n hn => by obtain ⟨_, _, t, ht, hty, hv⟩ := hn; exact hv ▸ hno t ht hty) fuel).parseExpression _
    (Good.ofList toks) _ h).1


/-! ### from the source to the fragment: whole templates

`Lemmas/ParseDocAll.lean` carries the same link through the document parser (tags, bodies, blocks,
macros, and the templates that `extends` / `include` / `import` / `ssi` pull in while compiling):
a source none of whose identifier tokens is `safe`, `filter` or `off`, compiled in a set whose
loaders hold only such sources (`SetupOK`), yields opt-out-free trees only. -/

/-- **Compiling opt-out-free sources yields opt-out-free templates** — the new template, and every
    template and macro its compilation added to the world. -/
theorem compiled_templates_are_optout_free (hS : SetupOK T cfg L) (fuel : Nat) (cs cs' : CState) (name src : Bytes)
    (isString : Bool) (ti : Nat) (hw : WorldOK L cs) (hsrc : SrcOK T L src)
    (h : compileTpl T cfg fuel cs name isString src = .ok (ti, cs')) : WorldOK L cs' :=
  (allDoc hS fuel).compileTpl cs name isString src hw hsrc _ h

/-- **Autoescape, from the source text to the output bytes**: compile a source whose identifier
    tokens avoid `safe`, `filter` and `off` (in a set whose loaders hold only such sources), execute
    it with any context that holds no Go function and no value pre-marked safe with raw text — what
    comes out, also before a failure, is a concatenation of template text, `escape` output and the
    engine's own text for values that are not text (each possibly thinned of whitespace by
    `spaceless`).  Lexer, parser and interpreter of the model, end to end; every fuel. -/
theorem autoescape_from_source_to_output (hS : SetupOK T cfg L) (hg : EnvOK L g) (f1 f2 : Nat) (name src : Bytes)
    (isString : Bool) (ti : Nat) (cs : CState) (hsrc : SrcOK T L src)
    (hc : compileTpl T cfg f1 {} name isString src = .ok (ti, cs)) (ctx : Env) (hctx : EnvOK L ctx) :
    ∃ chunks : List Bytes,
      (stateAfter ((executeTplUnbuffered T cfg g f2 ti ctx).run { cs := cs })).out = chunks.flatten ∧
      ∀ c ∈ chunks, ∃ c', c.Sublist c' ∧ nonWs c = nonWs c' ∧
        (L c' ∨
         (∃ x, c' = escapeHtml x ∧ (∀ b ∈ c, b ∉ C17.specials)) ∨
         (∃ v : Val, v.isString = false ∧ v.isStringer = false ∧ c' = v.toS)) :=
  output_is_clean T cfg g L hS hg f2 ti ctx hctx cs
    (compiled_templates_are_optout_free T cfg L hS f1 {} cs name src isString ti worldOK_empty hsrc hc)


/-- the premises are satisfiable: a set with an empty loader, any text as template text … -/
example (T : LexTables) : SetupOK T { regTags := [], regFilters := [] } (fun _ => True) :=
  ⟨(by intro l hl kv hkv; simp at hl; subst hl; cases hkv), (by intro l hl kv hkv; simp at hl; subst hl; cases hkv), fun _ _ => trivial, rfl⟩

/-- … and the tokens of `<p>{{ name|upper }}</p>` are those of an opt-out-free source -/
example : ToksOK (fun _ => True)
    [⟨.html, b!"<p>", 1, 1, false, 0⟩, ⟨.sym, b!"{{", 1, 4, false, 3⟩, ⟨.ident, b!"name", 1, 7, false, 6⟩, ⟨.sym, b!"|", 1, 11, false, 10⟩,
     ⟨.ident, b!"upper", 1, 12, false, 11⟩, ⟨.sym, b!"}}", 1, 18, false, 17⟩, ⟨.html, b!"</p>", 1, 20, false, 19⟩] :=
  ⟨(by intro t ht _; simp only [List.mem_cons, List.not_mem_nil, or_false] at ht; rcases ht with h | h | h | h | h | h | h <;> subst h <;> decide),
   fun _ _ _ _ _ _ _ _ _ => trivial⟩

end interpreter

/-! ### … and from the bytes of the sources

With the lexer theorem `word tokens are source words` (`Lemmas/LexPos.lean`, `TokOK`) the
token-level premise becomes one about the source *text*, for the lexer tables regenerated from
`/repo/lexer.go`: a source in which the byte strings `safe`, `filter` and `off` do not occur has no
such identifier token (sufficient, not necessary: `offer` contains `off`). -/

section bytes

/-- the literal text of a set of sources: what a text token of one of them can be written as (trimmed
    as its neighbours and the options say), a source read raw by `ssi`, the output of `templatetag` -/
def TemplateText (srcs : List Bytes) (c : Bytes) : Prop :=
  (∃ s ∈ srcs, ∃ toks, lex Gen.lexTables s = .ok toks ∧ ∃ t ∈ toks, t.typ = .html ∧
      ∃ tb lb tl tr a b, c = htmlOut tb lb t.val tl tr a b) ∨
  c ∈ srcs ∨ (∃ kv ∈ templateTagMapping, c = kv.2)

/-- a source without the three words is an opt-out-free source -/
theorem word_free_source_is_optout_free (srcs : List Bytes) (src : Bytes) (hin : src ∈ srcs)
    (hfree : ∀ w ∈ forbidden, ¬ w <:+: src) : SrcOK Gen.lexTables (TemplateText srcs) src := by
  intro toks hlex
  have hpos := lex_pos Gen.lexTables (by decide) (by decide) src
  rw [hlex] at hpos
  refine ⟨fun t ht hty => ?_, fun t ht hty tb lb tl tr a b => Or.inl ⟨src, hin, toks, hlex, t, ht, hty, tb, lb, tl, tr, a, b, rfl⟩⟩
  have hpre := (hpos t ht).2.2 (by rw [hty]; rfl)
  have hinfix : t.val <:+: src := hpre.isInfix.trans (List.drop_suffix _ _).isInfix
  cases he : forbidden.elem t.val with
  | false => rfl
  | true => exact absurd hinfix (hfree _ (by simpa using he))

/-- **Autoescape, from the bytes of the sources to the bytes of the output**: if the byte strings
    `safe`, `filter` and `off` occur in none of the sources a set can load nor in the template
    compiled, and the package default is on (`hon`; `SetAutoescape(false)` is the global opt-out), then
    whatever context (free of Go functions and of values pre-marked safe) it is
    executed with, everything written — also before a failure — is a concatenation of literal text of
    those sources, `escape` output and the engine's own text for values that are not text.  Lexer
    (tables regenerated from the code), parser and interpreter of the model; every fuel. -/
theorem autoescape_for_word_free_sources (cfg : SetCfg) (hon : cfg.autoescape = true) (g : Env) (srcs : List Bytes) (src name : Bytes) (isString : Bool)
    (hloaders : ∀ l ∈ cfg.loaders, ∀ kv ∈ l, kv.2 ∈ srcs) (hroot : src ∈ srcs)
    (hfree : ∀ s ∈ srcs, ∀ w ∈ forbidden, ¬ w <:+: s)
    (hg : EnvOK (TemplateText srcs) g) (f1 f2 ti : Nat) (cs : CState)
    (hc : compileTpl Gen.lexTables cfg f1 {} name isString src = .ok (ti, cs)) (ctx : Env) (hctx : EnvOK (TemplateText srcs) ctx) :
    ∃ chunks : List Bytes,
      (stateAfter ((executeTplUnbuffered Gen.lexTables cfg g f2 ti ctx).run { cs := cs })).out = chunks.flatten ∧
      ∀ c ∈ chunks, ∃ c', c.Sublist c' ∧ nonWs c = nonWs c' ∧
        (TemplateText srcs c' ∨
         (∃ x, c' = escapeHtml x ∧ (∀ b ∈ c, b ∉ C17.specials)) ∨
         (∃ v : Val, v.isString = false ∧ v.isStringer = false ∧ c' = v.toS)) := by
  have hS : SetupOK Gen.lexTables cfg (TemplateText srcs) :=
    ⟨fun l hl kv hkv => word_free_source_is_optout_free srcs kv.2 (hloaders l hl kv hkv) (hfree _ (hloaders l hl kv hkv)),
     fun l hl kv hkv => Or.inr (Or.inl (hloaders l hl kv hkv)),
     fun kv hkv => Or.inr (Or.inr ⟨kv, hkv, rfl⟩), hon⟩
  exact autoescape_from_source_to_output Gen.lexTables cfg g (TemplateText srcs) hS hg f1 f2 name src isString ti cs
    (word_free_source_is_optout_free srcs src hroot (hfree src hroot)) hc ctx hctx

end bytes



-- non-vacuity: a template `<b>{{ x }}</b>` with `x` bound to markup in the context
example :
    let L : Bytes → Prop := fun c => c = b!"<b>" ∨ c = b!"</b>"
    let tpl : Tpl := { (default : Tpl) with nodes :=
      [.html b!"<b>" false false false false 0, .var (.var [.ident b!"x" none] ⟨1, 4⟩) ⟨1, 4⟩, .html b!"</b>" false false false false 0] }
    NodesOK L tpl.nodes ∧ EnvOK L [(b!"x", Val.str b!"<script>")] := by
  refine ⟨?_, ?_⟩
  · intro n hn
    simp only [List.mem_cons, List.not_mem_nil, or_false] at hn
    rcases hn with rfl | rfl | rfl
    · exact NodeOK.html _ _ _ _ _ _ (by intro tb lb; cases tb <;> cases lb <;> decide)
    · exact NodeOK.var _ _ (ExprAll.var _ _ (by
        intro p hp
        simp only [List.mem_cons, List.not_mem_nil, or_false] at hp
        subst hp
        exact PartAll.ident _ _ (by intro args h; cases h)))
    · exact NodeOK.html _ _ _ _ _ _ (by intro tb lb; cases tb <;> cases lb <;> decide)
  · intro kv hkv
    simp only [List.mem_cons, List.not_mem_nil, or_false] at hkv
    subst hkv
    exact ValOK.str _

/-! ### regenerated from `/repo`: who may mark a value safe, who writes a value's text -/

/-- the places that create a safe value are exactly: `AsSafeValue` itself, the two HTML-aware
    truncation filters, `block.Super` and macro calls (their text was rendered — and escaped — by
    the engine), and the resolver (array literals; the flag of a `*Value` a Go function returned) -/
theorem gen_safe_sites : Gen.safeSites =
    [("AsSafeValue", "safe: true"),
     ("filterTruncatecharsHTML", "AsSafeValue"),
     ("filterTruncatewordsHTML", "AsSafeValue"),
     ("tagBlockInformation.Super", "AsSafeValue"),
     ("tagMacroNode.call", "AsSafeValue"),
     ("variableResolver.resolve", "safe: isSafe"),
     ("variableResolver.resolve", "safe: true")] := by decide

/-- the functions that write a value's text: the print node, `firstof`, `cycle`, the `filter`
    tag, and the (never scheduled) `Execute` methods of expression nodes -/
theorem gen_value_sinks : Gen.valueSinks.map (·.1) =
    ["Expression.Execute", "boolResolver.Execute", "floatResolver.Execute", "intResolver.Execute",
     "nodeFilteredVariable.Execute", "nodeVariable.Execute", "power.Execute", "relationalExpression.Execute",
     "simpleExpression.Execute", "stringResolver.Execute", "tagFilterNode.Execute", "tagFirstofNode.Execute",
     "term.Execute", "variableResolver.Execute", "writeCycleValue"] := by decide

end Pongo.C02

/-
  C09 — Branching and looping tags follow their reference semantics.
  Property theorems only (model: `Pongo/Model/Exec.lean`).
-/
import Pongo.Lemmas.Eval
import Pongo.Gen.LexTables

namespace Pongo.C09

variable (T : LexTables) (cfg : SetCfg) (g : Env)

/-! ### iteration order -/

/-- a list or array is iterated in order… -/
theorem iter_in_order (ty : Bytes) (xs : List Val) :
    iterItems (.list ty xs) false false = xs.map (fun x => (x, none)) := by
  simp [iterItems, Val.reflected, Val.resolved]

/-- …`reversed` iterates it backwards… -/
theorem iter_reversed (ty : Bytes) (xs : List Val) :
    iterItems (.list ty xs) true false = xs.reverse.map (fun x => (x, none)) := by
  simp [iterItems, Val.reflected, Val.resolved]

/-- …and anything that is not a list, array, map or string (nil, numbers,
    booleans, structs) has no items: the `empty` branch runs. -/
theorem iter_nothing (v : Val) (h : v = .nil ∨ (∃ i, v = .int i) ∨ (∃ b, v = .bool b)) (r s : Bool) :
    iterItems v r s = [] := by
  rcases h with rfl | ⟨i, rfl⟩ | ⟨b, rfl⟩ <;> simp [iterItems, Val.reflected, Val.resolved]

theorem insertSorted_perm (less : Val → Val → Bool) (x : Val) (l : List Val) :
    (insertSorted less x l).Perm (x :: l) := by
  induction l with
  | nil => simp [insertSorted]
  | cons y ys ih =>
    simp only [insertSorted]
    split
    · exact List.Perm.refl _
    · exact (List.Perm.cons y ih).trans (List.Perm.swap x y ys)

/-- `sorted` visits exactly the same elements (a permutation)… -/
theorem sorted_is_permutation (less : Val → Val → Bool) (xs : List Val) : (sortVals less xs).Perm xs := by
  induction xs with
  | nil => simp [sortVals]
  | cons x t ih =>
    simp only [sortVals, List.foldr_cons]
    exact (insertSorted_perm less x _).trans (List.Perm.cons x ih)

/-- …in ascending order: for integers, numerically. -/
theorem insertSorted_sorted (x : Int64) (l : List Int64)
    (h : (l.map Val.int).Pairwise (fun a c => a.toInt ≤ c.toInt)) :
    (insertSorted valLess (Val.int x) (l.map Val.int)).Pairwise (fun a c => a.toInt ≤ c.toInt) := by
  induction l with
  | nil => simp [insertSorted]
  | cons y ys ih =>
    simp only [List.map_cons, insertSorted]
    have hless : valLess (Val.int x) (Val.int y) = decide (x < y) := by
      simp [valLess, intValue, Val.resolved, Val.isInteger, Val.rkind, Val.kind, Int64.lt_iff_toInt_lt]
      congr
    rw [hless]
    rw [List.map_cons, List.pairwise_cons] at h
    by_cases hxy : x < y
    · simp only [hxy, decide_true, if_true]
      rw [List.pairwise_cons]
      refine ⟨?_, List.pairwise_cons.mpr h⟩
      intro a ha
      rcases List.mem_cons.mp ha with rfl | ha
      · simp only [toInt_int]; exact Int64.le_of_lt hxy
      · have := h.1 a ha
        simp only [toInt_int] at this ⊢
        exact Int64.le_trans (Int64.le_of_lt hxy) this
    · simp only [hxy, decide_false, Bool.false_eq_true, if_false]
      rw [List.pairwise_cons]
      refine ⟨?_, ih h.2⟩
      intro a ha
      have hp := (insertSorted_perm valLess (Val.int x) (ys.map Val.int)).mem_iff.mp ha
      rcases List.mem_cons.mp hp with rfl | ha'
      · simp only [toInt_int]; exact Int64.not_lt.mp hxy
      · exact h.1 a ha'

theorem sorted_ints_ascending (l : List Int64) :
    (sortVals valLess (l.map Val.int)).Pairwise (fun a c => a.toInt ≤ c.toInt) := by
  induction l with
  | nil => simp [sortVals]
  | cons x t ih =>
    simp only [List.map_cons, sortVals, List.foldr_cons]
    obtain ⟨l', hl'⟩ : ∃ l' : List Int64, List.foldr (fun x acc => insertSorted valLess x acc) [] (t.map Val.int) = l'.map Val.int := by
      clear ih
      induction t with
      | nil => exact ⟨[], rfl⟩
      | cons y ys ihy =>
        obtain ⟨m, hm⟩ := ihy
        simp only [List.map_cons, List.foldr_cons, hm]
        clear hm
        induction m with
        | nil => exact ⟨[y], rfl⟩
        | cons z zs ihz =>
          simp only [List.map_cons, insertSorted]
          split
          · exact ⟨y :: z :: zs, rfl⟩
          · obtain ⟨w, hw⟩ := ihz
            exact ⟨z :: w, by simp [hw]⟩
    simp only [sortVals] at ih
    rw [hl'] at ih ⊢
    exact insertSorted_sorted x l' ih

/-! ### the loop, through the interpreter -/

/-- **One iteration of `for`.**  With `idx` items done out of `count`, the next item `(k, v)` is
    bound to the loop variable(s), `forloop` is a fresh record saying exactly where the loop
    stands — `Counter = idx + 1`, `Counter0 = idx`, `Revcounter = count - idx`,
    `Revcounter0 = count - idx - 1`, `First` iff `idx = 0`, `Last` iff `idx + 1 = count`,
    `Parentloop` the enclosing loop's record — the body is executed once, and the loop goes on
    with the remaining items at `idx + 1`: once per element, in the order of the items. -/
theorem for_iteration (fuel : Nat) (key value : Bytes) (body : List Node) (parent : Val) (k : Val) (v : Option Val)
    (rest : List (Val × Option Val)) (idx count : Nat) (first last : Bool) :
    forLoop T cfg g (fuel + 1) key value body parent ((k, v) :: rest) idx count first last = (do
      modifyCur fun f =>
        let p1 := f.priv.set key (bindItem k)
        let p2 := match v with | some vv => if value = [] then p1 else p1.set value (.boxed vv false) | none => p1
        let rec_ := loopRecord (Int64.ofNat (idx + 1)) (Int64.ofNat idx) (Int64.ofNat (count - idx)) (Int64.ofNat (count - (idx + 1))) (idx == 0) (idx + 1 == count) parent
        { f with priv := p2.set b!"forloop" rec_ }
      execNodes T cfg g fuel body
      forLoop T cfg g fuel key value body parent rest (idx + 1) count (idx == 0) (idx + 1 == count)) := by
  rw [forLoop]
  rfl

/-- … and when no item is left the loop is over: nothing more is rendered. -/
theorem for_done (fuel : Nat) (key value : Bytes) (body : List Node) (parent : Val) (idx count : Nat) (first last : Bool) (σ : ES) :
    (forLoop T cfg g (fuel + 1) key value body parent [] idx count first last).run σ = .ok () σ := by
  rw [forLoop]
  · rfl
  · intro h; cases h

/-- **`empty` runs exactly when there is nothing to iterate**: in the loop's own child context, a
    `for` over a value without items executes its `empty` branch (nothing, if there is none) and
    never the body; over a value with items it is the loop from position 0 and never the `empty`
    branch. -/
theorem for_empty_or_loop (fuel : Nat) (key value : Bytes) (obj : Expr) (rev srt : Bool) (body : List Node)
    (empty : Option (List Node)) :
    execNode T cfg g (fuel + 1) (.tagFor key value obj rev srt body empty) = (do
      let fr ← cur
      let parent : Val := (fr.priv.lookup b!"forloop").getD .nil
      withFrame (childOf fr) do
        let o ← eval T cfg g fuel obj
        if (iterItems o.v rev srt).length == 0 then
          (match empty with
           | some eb => execNodes T cfg g fuel eb
           | none => pure ())
        else forLoop T cfg g fuel key value body (if isLoopRecord parent then parent else .nilptr)
               (iterItems o.v rev srt) 0 (iterItems o.v rev srt).length true false) := by
  unfold execNode
  rfl

/-- the record of the second of three iterations -/
example : loopRecord (Int64.ofNat (1 + 1)) (Int64.ofNat 1) (Int64.ofNat (3 - 1)) (Int64.ofNat (3 - (1 + 1))) (1 == 0) (1 + 1 == 3) .nilptr
    = .ptr (.struct b!"forloop" [(b!"Counter", .int 2), (b!"Counter0", .int 1), (b!"Revcounter", .int 2),
        (b!"Revcounter0", .int 1), (b!"First", .bool false), (b!"Last", .bool false), (b!"Parentloop", .nilptr)] []) := by
  rfl

/-- **what counts as a name** (regenerated from lexer.go): a name starts with an ASCII letter or
    `_` and goes on with letters, digits and `_`; exactly eight words are reserved (`in and or not
    true false as export`) — every other word, `none`, `_`, `_x`, `end`, … is an ordinary name that
    a loop variable, a macro parameter or a context key can bear -/
theorem gen_name_tables :
    Gen.lexTables.identChars = b!"abcdefghijklmnopqrstuvwxyzABCDEFGHIJKLMNOPQRSTUVWXYZ_" ∧
    Gen.lexTables.identDigitChars = b!"abcdefghijklmnopqrstuvwxyzABCDEFGHIJKLMNOPQRSTUVWXYZ_0123456789" ∧
    Gen.lexTables.keywords = [b!"in", b!"and", b!"or", b!"not", b!"true", b!"false", b!"as", b!"export"] := by decide

/-- **`cycle` walks its arguments round-robin**: with the node's counter at `idx` (0 in a fresh
    render), a `cycle` over the literal texts `lits` prints `lits[idx mod n]` (escaped like any
    printed text while autoescaping is on) and leaves the counter at `idx + 1`, whatever `idx` is:
    after n steps it is back at the first argument. -/
theorem cycle_round_robin (fuel id : Nat) (lits : List Bytes) (p : TokPos) (σ : ES) (fr : Frame) (rest : List Frame)
    (hσ : σ.frames = fr :: rest) (hn : lits ≠ []) :
    (execNode T cfg g (fuel + 2) (.tagCycle id (lits.map fun s => Expr.str s p) [] false)).run σ =
      .ok () { σ with
        cycle := (σ.cycle.filter (·.1 != id)) ++ [(id, (σ.cycle.lookup id).getD 0 + 1)],
        out := σ.out ++ printed false fr.autoescape ⟨.str (lits.getD ((σ.cycle.lookup id).getD 0 % lits.length) []), false⟩ } := by
  obtain ⟨frames, a, b, c, d, e, f⟩ := σ
  simp only at hσ
  subst hσ
  have hlen : (lits.length == 0) = false := by cases lits <;> simp at hn ⊢
  have hlt : (List.lookup id c).getD 0 % lits.length < lits.length := Nat.mod_lt _ (by cases lits <;> simp at hn ⊢)
  have hget : (lits.map fun s => Expr.str s p).getD ((List.lookup id c).getD 0 % lits.length) default =
      Expr.str (lits.getD ((List.lookup id c).getD 0 % lits.length) []) p := by
    rw [List.getD_eq_getElem?_getD, List.getD_eq_getElem?_getD, List.getElem?_map, List.getElem?_eq_getElem hlt]
    rfl
  simp only [execNode, List.length_map, hlen, Bool.false_eq_true, if_false, EStateM.run, bind, EStateM.bind, get, getThe,
    MonadStateOf.get, EStateM.get, modify, modifyGet, MonadStateOf.modifyGet, EStateM.modifyGet, hget, eval, pure, EStateM.pure,
    mkV, filterApplied, cur, write, ne_eq, not_true_eq_false, Bool.not_false, if_true]

/-- **`ifchanged` prints only when its content differs from the last time it printed**: if the
    body renders (into a buffer of its own) to `out`, the tag writes `out` and remembers it exactly
    when `out` is not what it remembered (nothing remembered and nothing rendered counts as
    unchanged); otherwise it writes nothing and remembers what it did. -/
theorem ifchanged_prints_on_change (fuel id : Nat) (body : List Node) (σ σ1 : ES) (out : Bytes)
    (hbody : (buffered (execNodes T cfg g fuel body)).run σ = .ok out σ1) :
    (execNode T cfg g (fuel + 1) (.tagIfchanged id [] body none)).run σ =
      if σ1.changedC.lookup id != some out && !((σ1.changedC.lookup id).isNone && out == []) then
        .ok () { σ1 with out := σ1.out ++ out, changedC := (σ1.changedC.filter (·.1 != id)) ++ [(id, out)] }
      else .ok () σ1 := by
  unfold execNode
  simp only [List.length_nil, beq_self_eq_true, if_true]
  rw [run_bind_ok hbody]
  simp only [EStateM.run, bind, EStateM.bind, get, getThe, MonadStateOf.get, EStateM.get]
  by_cases h : (σ1.changedC.lookup id != some out && !((σ1.changedC.lookup id).isNone && out == [])) = true
  · simp only [h, if_true, write, modify, modifyGet, MonadStateOf.modifyGet, EStateM.modifyGet, EStateM.bind]
  · simp only [h, Bool.false_eq_true, if_false]
    cases hl : (List.lookup id σ1.changedC).isSome <;> simp [hl, pure, EStateM.pure]

/-! ### branching -/

/-- **`firstof` prints the first true argument**: the arguments are evaluated from the left; the
    first whose value is true is printed (and nothing after it is evaluated), a false one is
    skipped and the search goes on with the rest; with no argument left nothing is printed. -/
theorem firstof_prints_first_true (fuel : Nat) (a : Expr) (rest : List Expr) (σ σ' : ES) (v : V)
    (h : (eval T cfg g fuel a).run σ = .ok v σ') :
    (v.v.isTrue = true → (firstof T cfg g (fuel + 1) (a :: rest)).run σ =
      ((cur >>= fun fr => write (firstofText (filterApplied b!"safe" a) fr.autoescape v)) : XM Unit).run σ') ∧
    (v.v.isTrue = false → (firstof T cfg g (fuel + 1) (a :: rest)).run σ = (firstof T cfg g fuel rest).run σ') ∧
    (firstof T cfg g (fuel + 1) []).run σ = .ok () σ := by
  refine ⟨?_, ?_, ?_⟩
  · intro hv; rw [firstof, run_bind_ok h]; simp [hv]
  · intro hv; rw [firstof, run_bind_ok h]; simp [hv]
  · rw [firstof]
    · rfl
    · intro hh; cases hh



/-- `ifequal a b T else E` and `ifnotequal a b E else T` are the same node. -/
theorem ifequal_complement (fuel : Nat) (a c : Expr) (t e : List Node) :
    execNode T cfg g (fuel + 1) (.tagIfEqual a c t (some e)) = execNode T cfg g (fuel + 1) (.tagIfNotEqual a c e (some t)) := by
  rw [execNode, execNode]
  congr 1; funext r1
  congr 1; funext r2
  cases equalValueTo r1.v r2.v <;> simp

/-- **`if / elif / else`, for any conditions**: with the conditions `c :: cs` still to be tried and
    `bodies[i]` the branch of `c`: if `c` evaluates to a true value exactly that branch runs (in the
    state the evaluation left) and no later condition is evaluated; if it is false and it was the
    last condition, the else-branch `bodies[i + 1]` runs if there is one; otherwise the search goes
    on with `cs` at `i + 1`. -/
theorem if_chain_step (fuel : Nat) (c : Expr) (cs : List Expr) (bodies : List (List Node)) (i : Nat) (σ σ' : ES) (v : V)
    (h : (eval T cfg g fuel c).run σ = .ok v σ') :
    (v.v.isTrue = true →
      (ifChain T cfg g (fuel + 1) (c :: cs) bodies i).run σ = (execNodes T cfg g fuel (bodies.getD i [])).run σ') ∧
    (v.v.isTrue = false → cs = [] → bodies.length > i + 1 →
      (ifChain T cfg g (fuel + 1) (c :: cs) bodies i).run σ = (execNodes T cfg g fuel (bodies.getD (i + 1) [])).run σ') ∧
    (v.v.isTrue = false → (cs ≠ [] ∨ ¬ bodies.length > i + 1) →
      (ifChain T cfg g (fuel + 1) (c :: cs) bodies i).run σ = (ifChain T cfg g fuel cs bodies (i + 1)).run σ') := by
  refine ⟨?_, ?_, ?_⟩
  · intro hv; rw [ifChain, run_bind_ok h]; simp [hv]
  · intro hv hcs hb; rw [ifChain, run_bind_ok h]; subst hcs; simp [hv, hb]
  · intro hv hor
    rw [ifChain, run_bind_ok h]
    rcases hor with hcs | hb
    · have : (cs.length == 0) = false := by cases cs <;> simp at hcs ⊢
      simp [hv, this]
    · have : decide (bodies.length > i + 1) = false := by simpa using hb
      simp [hv, this]

/-- `if` with literal conditions: exactly the first branch whose condition is
    true runs; the else-branch if none is; nothing if there is none. -/
theorem if_first_true (fuel : Nat) (p : TokPos) (bs : List Bool) (bodies : List (List Node)) (i : Nat) (σ : ES)
    (hf : fuel ≥ bs.length + 3) :
    (ifChain T cfg g fuel (bs.map fun b => Expr.bool b p) bodies i).run σ =
      match bs.findIdx? id with
      | some k => (execNodes T cfg g (fuel - k - 1) (bodies.getD (i + k) [])).run σ
      | none =>
        if bs ≠ [] ∧ bodies.length > i + bs.length then
          (execNodes T cfg g (fuel - bs.length) (bodies.getD (i + bs.length) [])).run σ
        else .ok () σ := by
  induction bs generalizing fuel i with
  | nil =>
    obtain ⟨n, rfl⟩ : ∃ n, fuel = n + 1 := ⟨fuel - 1, by simp at hf; omega⟩
    simp [ifChain, EStateM.run, pure, EStateM.pure]
  | cons b rest ih =>
    obtain ⟨n, rfl⟩ : ∃ n, fuel = n + 2 := ⟨fuel - 2, by simp at hf; omega⟩
    simp only [List.map_cons, ifChain]
    have hev : (eval T cfg g (n + 1) (Expr.bool b p)).run σ = .ok (mkV (.bool b)) σ := by
      simp [eval, EStateM.run, pure, EStateM.pure]
    rw [run_bind_ok hev]
    cases b with
    | true => simp [Val.isTrue, Val.resolved, List.findIdx?_cons]
    | false =>
      simp only [mkV_v, Val.isTrue, Val.resolved, Bool.false_eq_true, if_false, List.length_map]
      by_cases hr : rest = []
      · subst hr
        simp only [List.length_nil, beq_self_eq_true, Bool.true_and, List.findIdx?_cons, List.findIdx?_nil,
          List.length_cons, Nat.zero_add]
        by_cases hb : bodies.length > i + 1
        · simp [hb]
        · simp [hb, ifChain, EStateM.run, pure, EStateM.pure]
      · have hlen : (rest.length == 0) = false := by
          cases rest with
          | nil => exact absurd rfl hr
          | cons _ _ => simp
        simp only [hlen, Bool.false_and, Bool.false_eq_true, if_false]
        rw [ih (n + 1) (i + 1) (by simp at hf ⊢; omega)]
        simp only [List.findIdx?_cons, id, Bool.false_eq_true, if_false]
        cases hfi : rest.findIdx? id with
        | some k =>
          simp only [Option.map_some]
          have : i + 1 + k = i + (k + 1) := by omega
          rw [this]
          congr 2
          omega
        | none =>
          simp only [Option.map_none, List.length_cons, hr, ne_eq, not_false_eq_true, true_and, reduceCtorEq]
          have h1 : i + 1 + rest.length = i + (rest.length + 1) := by omega
          rw [h1]
          have h2 : n + 1 - rest.length = n + 2 - (rest.length + 1) := by omega
          rw [h2]

/-! ### non-vacuity -/
example : (sortVals valLess [.int 3, .int 1, .int 2]).map Val.toInt = [1, 2, 3] := by decide
example : iterItems (.nil) true true = [] := iter_nothing _ (Or.inl rfl) _ _

/-- **`sorted` compares integers of every kind in their own range** (D59): unsigned values are
    ordered as the natural numbers they are — 2^63 comes after 5, not before it as a wrapped
    negative number — and mixed signed / unsigned pairs by their exact values -/
theorem valLess_unsigned (a c : UInt64) : valLess (.uint a) (.uint c) = decide (a.toNat < c.toNat) := by
  simp [valLess, intValue, Val.resolved, Val.isInteger, Val.rkind, Val.kind]

theorem valLess_mixed (a : Int64) (c : UInt64) :
    valLess (.int a) (.uint c) = decide (a.toInt < (c.toNat : Int)) ∧ valLess (.uint c) (.int a) = decide ((c.toNat : Int) < a.toInt) := by
  constructor <;> simp [valLess, intValue, Val.resolved, Val.isInteger, Val.rkind, Val.kind] <;> congr

example : valLess (.uint 5) (.uint 9223372036854775808) = true ∧ valLess (.uint 9223372036854775808) (.uint 5) = false := by decide

/-- **After `else` only `endif`** (D50): once every condition has its body (the body that just ended
    was the `else` branch), an `elif` or a second `else` is a compile error — conditions are never
    paired with the wrong bodies -/
theorem after_else_only_endif (T : LexTables) (cfg : SetCfg) (fuel : Nat) (conds : List Expr) (bodies : List (List Node))
    (prev : Option Tok) (ds ds' : DS) (body : List Node) (endtag : Bytes) (tagArgs : PS) (last : Option Tok)
    (hw : wrapUntil T cfg fuel [b!"elif", b!"else", b!"endif"] [] prev ds = .ok (body, endtag, tagArgs, last, ds'))
    (helse : bodies.length = conds.length) (hend : endtag ≠ b!"endif") :
    ifBranches T cfg (fuel + 1) conds bodies prev ds = .error (tagArgs.err "Only 'endif' is allowed after 'else'.") := by
  rw [ifBranches]
  simp [hw, bind, Except.bind, helse, hend]

end Pongo.C09

/-
C01 — totality: compiling and executing never panics, crashes or hangs.

The model's lexer, parser and interpreter are total Lean functions: the lexer's loops carry
machine-checked termination proofs (`Model/Lex.lean`, `termination_by` on the remaining input),
the parser and interpreter recurse on explicit fuel.  That the implementation takes the same
decisions as these total functions on damaged and exotic input is what the suites check.
The theorems here are the guards a totality argument rests on: zero divisors, resource caps,
the constructs that used to panic, and — regenerated from `/repo` on every run — the list of
places that can panic by themselves.
-/
import Pongo.Model.Exec
import Pongo.Model.ParseDoc
import Pongo.Gen.PanicSites
import Pongo.Gen.FilterFacts
import Pongo.Lemmas.KeepsAll
import Pongo.Lemmas.LexPos
import Pongo.Gen.LexTables

namespace Pongo.C01
open Pongo

/-! ### arithmetic guards (`term.Evaluate`) -/

/-- integer division and modulo by zero are execution errors for every pair of operands -/
theorem int_div_mod_by_zero_is_error (a c : V)
    (hint : (a.v.isFloat || c.v.isFloat) = false) (hz : c.v.toInt = 0) :
    (∃ m, evalBin .div a c = .error m) ∧ (∃ m, evalBin .mod a c = .error m) := by
  constructor
  · refine ⟨"integer divide by zero", ?_⟩
    simp [evalBin, hint, hz]
  · refine ⟨"integer divide by zero", ?_⟩
    simp [evalBin, hz]

/-- … and with any non-zero divisor they yield a value -/
theorem int_div_mod_total (a c : V)
    (hint : (a.v.isFloat || c.v.isFloat) = false) (hz : c.v.toInt ≠ 0) :
    (∃ r, evalBin .div a c = .ok r) ∧ (∃ r, evalBin .mod a c = .ok r) := by
  constructor
  · refine ⟨mkV (.int (a.v.toInt / c.v.toInt)), ?_⟩
    simp [evalBin, hint, hz]
  · refine ⟨mkV (.int (a.v.toInt % c.v.toInt)), ?_⟩
    simp [evalBin, hz]

/-- every other binary operator yields a value for every pair of operands (`and`/`or` are
    evaluated by the short-circuiting path and never reach `evalBin`) -/
theorem other_operators_total (op : BinOp) (a c : V)
    (h : op ≠ .div ∧ op ≠ .mod ∧ op ≠ .and ∧ op ≠ .or) : ∃ r, evalBin op a c = .ok r := by
  obtain ⟨h1, h2, h3, h4⟩ := h
  cases op <;> simp_all [evalBin] <;> (repeat' split) <;> exact ⟨_, rfl⟩

example : evalBin .div ⟨.int 7, false⟩ ⟨.int 0, false⟩ = .error "integer divide by zero" := by
  simp [evalBin, Val.isFloat, Val.rkind, Val.kind, Val.toInt, Val.resolved]

/-! ### resource caps -/

/-- `ljust` never builds more than `maxCharPadding` spaces: beyond the cap it is an error -/
theorem ljust_capped (i p r : V) (h : applyFilter b!"ljust" i p = .ok r) :
    ∃ n : Nat, (n : Int) ≤ maxCharPadding ∧ r.v = .str (i.v.toS ++ Bytes.spaces n) := by
  simp [applyFilter, mkStr] at h
  by_cases hc : maxCharPadding < (if p.v.toInt.toInt - ↑(Utf8.runes i.v.toS).length < 0 then 0 else p.v.toInt.toInt - ↑(Utf8.runes i.v.toS).length)
  · rw [if_pos hc] at h; cases h
  · rw [if_neg hc] at h
    simp only [FRes.ok.injEq] at h
    subst h
    refine ⟨_, ?_, rfl⟩
    split at hc <;> omega

/-! ### constructs that used to panic -/

/-- a `cycle` tag without arguments cannot be compiled (its execution would divide by zero) -/
theorem empty_cycle_is_rejected (cfg : SetCfg) (fuel : Nat) (args : PS) (es : List Expr) (asName : Bytes)
    (silent : Bool) (rest : PS) (h : cycleArgs cfg fuel [] args = .ok (es, asName, silent, rest))
    (hrem : rest.remaining = 0) (hes : es = []) :
    ∀ node, (do
      let (es, asName, silent, args) ← cycleArgs cfg fuel [] args
      if args.remaining > 0 then (.error (args.err "Malformed cycle-tag.") : PM Node)
      else if es.length == 0 then .error (args.err "'cycle' tag requires at least one argument.")
      else pure (Node.tagCycle 0 es asName silent)) ≠ .ok node := by
  intro node
  simp [h, hrem, hes, bind, Except.bind]

/-! ### the lexer's loop always makes progress

The model's `run` returns `.hang` where the Go loop would go round without consuming input (a
marker of width 0, a tokenizer call that consumed nothing).  For the tables regenerated from
`lexer.go` this never happens, for any source: every iteration consumes at least one byte, so
lexing takes at most as many iterations as the source has bytes. -/

theorem lexer_never_hangs (s : Bytes) : lex Gen.lexTables s ≠ .hang := by
  intro h
  have := lex_pos Gen.lexTables (by decide) (by decide) s
  rw [h] at this
  exact this

/-! ### the interpreter never takes a panicking branch

The model marks with the error kind `.panic` the places where the Go code would panic (a lookup
in an empty context stack).  By the interpreter-wide induction of `Lemmas/KeepsAll.lean` no
execution reaches one: for every fuel, template, context and state. -/

variable (T : LexTables) (cfg : SetCfg) (g : Env)

/-- a whole execution — started with or without contexts on the stack — never fails with `.panic` -/
theorem execution_never_panics (fuel ti : Nat) (ctx : Env) (σ σ' : ES) (e : XErr)
    (h : (executeTpl T cfg g fuel ti ctx).run σ = .error e σ') : e.kind ≠ .panic := by
  have := keepsAny_executeTpl T cfg g fuel ti ctx
  unfold KeepsAny at this
  have h1 := (this σ).1
  rw [h] at h1
  exact h1

/-- nor does any single node or expression, from any state that has a current context -/
theorem node_never_panics (fuel : Nat) (n : Node) (σ σ' : ES) (e : XErr) (hσ : σ.frames ≠ [])
    (h : (execNode T cfg g fuel n).run σ = .error e σ') : e.kind ≠ .panic := by
  have := (allKeeps T cfg g fuel).execNode n
  unfold Keeps at this
  have h1 := (this σ hσ).1
  rw [h] at h1
  exact h1

theorem expression_never_panics (fuel : Nat) (x : Expr) (σ σ' : ES) (e : XErr) (hσ : σ.frames ≠ [])
    (h : (eval T cfg g fuel x).run σ = .error e σ') : e.kind ≠ .panic := by
  have := (allKeeps T cfg g fuel).eval x
  unfold KeepsTop at this
  have h1 := (this σ hσ).1
  rw [h] at h1
  exact h1

/-! ### regenerated from `/repo`: what can panic by itself -/

/-- explicit `panic` calls, type assertions without comma-ok and integer divisions by a
    non-constant are exactly these.  Each is accounted for: the `panic`s are in `Must*`/`NewSet`
    (documented API), in loaders' `Abs`, or behind conditions the parser excludes
    (`tagBlock*`, `variablePart.String`, `resolve`'s default case); the `*Error` assertions are on
    values `FromFile` produces; `*Value` on values whose type was just compared with `*Value` (the resolver, and `IterateOrder` for the items of a list literal); the divisors are
    guarded by zero checks (`divisibleby`, `wordwrap`, `term.Evaluate`) or are lengths of
    non-empty lists (`cycle` after the parser check, `lorem`'s word list). -/
theorem gen_panic_sites : Gen.panicSites =
    [("LocalFilesystemLoader.Abs", "panic()"),
     ("Must", "panic()"),
     ("MustApplyFilter", "panic()"),
     ("NewSet", "panic()"),
     ("Value.IterateOrder", "assert *Value"),
     ("filterDivisibleby", "int % param.Integer()"),
     ("filterWordwrap", "int % wrapAt"),
     ("filterWordwrap", "int / wrapAt"),
     ("tagBlockNode.Execute", "panic()"),
     ("tagBlockParser", "panic()"),
     ("tagCycleNode.Execute", "int % len()"),
     ("tagExtendsParser", "assert *Error"),
     ("tagImportParser", "assert *Error"),
     ("tagIncludeNode.Execute", "assert *Error"),
     ("tagIncludeParser", "assert *Error"),
     ("tagLoremNode.Execute", "int % len()"),
     ("tagSSINode.Execute", "assert *Error"),
     ("tagSSIParser", "assert *Error"),
     ("term.Evaluate", "int % divisor"),
     ("term.Evaluate", "int / divisor"),
     ("variablePart.String", "panic()"),
     ("variableResolver.resolve", "assert *Value"),
     ("variableResolver.resolve", "panic()")] := by decide

/-- the caps the code declares are the ones the model uses -/
theorem gen_caps :
    (Gen.maxCharPadding : Int) = maxCharPadding ∧ (Gen.maxFloatFormatDecimals : Int) = maxFloatFormatDecimals ∧
    Gen.maxMacroDepth = maxMacroDepth := by decide

end Pongo.C01

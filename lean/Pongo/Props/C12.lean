/-
  C12 — Scoping: bindings stay in their construct; caller data is never modified.
  Property theorems only.
-/
import Pongo.Lemmas.Eval
import Pongo.Gen.Effects
import Pongo.Lemmas.KeepsAll

namespace Pongo.C12

variable (T : LexTables) (cfg : SetCfg) (g : Env)

/-! ### environments -/

theorem set_lookup_self (e : Env) (k : Bytes) (v : Val) : (e.set k v).lookup k = some v := by
  unfold Env.set
  split
  · rename_i h
    induction e with
    | nil => simp at h
    | cons kv t ih =>
      obtain ⟨a, w⟩ := kv
      by_cases hk : a = k
      · subst hk; simp [List.lookup_cons]
      · have hb : (k == a) = false := by simp; exact fun e => hk e.symm
        have hb' : (a == k) = false := by simp [hk]
        simp only [List.lookup_cons, hb] at h
        simp only [List.map_cons, hb', Bool.false_eq_true, if_false, List.lookup_cons, hb]
        exact ih h
  · rename_i h
    simp only [Option.isSome_iff_exists, not_exists] at h
    have hn : e.lookup k = none := by
      cases hl : e.lookup k with
      | none => rfl
      | some x => exact absurd hl (h x)
    simp [List.lookup_append, hn]

theorem lookup_map_replace (e : Env) (k k' : Bytes) (v : Val) (hne : k' ≠ k) :
    (e.map (fun kv => if kv.1 == k then (k, v) else kv)).lookup k' = e.lookup k' := by
  induction e with
  | nil => simp
  | cons kv t ih =>
    obtain ⟨a, w⟩ := kv
    by_cases hk : a = k
    · subst hk
      have hb : (k' == a) = false := by simp [hne]
      simp only [List.map_cons, beq_self_eq_true, if_true, List.lookup_cons, hb, ih]
    · have hb' : (a == k) = false := by simp [hk]
      simp only [List.map_cons, hb', Bool.false_eq_true, if_false, List.lookup_cons, ih]

theorem set_lookup_other (e : Env) (k k' : Bytes) (v : Val) (hne : k' ≠ k) : (e.set k v).lookup k' = e.lookup k' := by
  unfold Env.set
  split
  · exact lookup_map_replace e k k' v hne
  · have hb : (k' == k) = false := by simp [hne]
    simp [List.lookup_append, List.lookup_cons, hb]

/-- **Globals are visible and overridden by same-named context entries**:
    the names a template sees are `Globals` updated with the caller's context. -/
theorem context_overrides_globals (globals : Env) (k : Bytes) (v : Val) (ctx : Env) :
    (Env.update globals (ctx ++ [(k, v)])).lookup k = some v := by
  simp [Env.update, List.foldl_append, set_lookup_self]

/-! ### the frame discipline of scoping constructs -/

/-- `with`, `for`, macro calls and includes run their body in a frame pushed
    for the purpose and popped afterwards, on success and on failure: what the
    body bound there is gone, and the frames below are the ones the body left. -/
theorem withFrame_pops_ok {α} (fr : Frame) (m : XM α) (σ σ' : ES) (a : α)
    (h : m.run { σ with frames := { fr with id := σ.nextFrame } :: σ.frames, nextFrame := σ.nextFrame + 1 } = .ok a σ') :
    (withFrame fr m).run σ = .ok a { σ' with frames := σ'.frames.tail } := by
  simp only [EStateM.run] at h
  simp [withFrame, EStateM.run, bind, EStateM.bind, get, getThe, MonadStateOf.get, EStateM.get, modify, modifyGet,
    MonadStateOf.modifyGet, EStateM.modifyGet, tryCatch, tryCatchThe, MonadExceptOf.tryCatch, EStateM.tryCatch, h, pure, EStateM.pure]

theorem withFrame_pops_err {α} (fr : Frame) (m : XM α) (σ σ' : ES) (e : XErr)
    (h : m.run { σ with frames := { fr with id := σ.nextFrame } :: σ.frames, nextFrame := σ.nextFrame + 1 } = .error e σ') :
    (withFrame fr m).run σ = .error e { σ' with frames := σ'.frames.tail } := by
  simp only [EStateM.run] at h
  simp [withFrame, EStateM.run, bind, EStateM.bind, get, getThe, MonadStateOf.get, EStateM.get, modify, modifyGet,
    MonadStateOf.modifyGet, EStateM.modifyGet, tryCatch, tryCatchThe, MonadExceptOf.tryCatch, EStateM.tryCatch, h,
    EStateM.Backtrackable.save, EStateM.Backtrackable.restore, EStateM.dummySave, EStateM.dummyRestore,
    throw, throwThe, MonadExceptOf.throw, EStateM.throw]

/-- a child context starts with the bindings of its parent (they are visible
    "at that level and below") -/
theorem child_sees_parent (p : Frame) (k : Bytes) : (childOf p).priv.lookup k = p.priv.lookup k ∧ (childOf p).pub = p.pub := by
  simp [childOf]

/-- **`set` binds in the current context only**: the name is bound to the
    value in the innermost frame; every other name there, and every other
    frame, is untouched; nothing is written. -/
theorem set_binds_current (fuel : Nat) (name : Bytes) (i : Int64) (p : TokPos) (fr : Frame) (rest : List Frame) (σ : ES)
    (hσ : σ.frames = fr :: rest) :
    (execNode T cfg g (fuel + 2) (.tagSet name (.int i p))).run σ =
      .ok () { σ with frames := { fr with priv := fr.priv.set name (.boxed (.int i) false) } :: rest } := by
  simp [execNode, eval, EStateM.run, bind, EStateM.bind, pure, EStateM.pure, modifyCur, modify, modifyGet,
    MonadStateOf.modifyGet, EStateM.modifyGet, hσ, mkV]

/-- **`with` through the interpreter**: the pairs are evaluated in the enclosing context (a pair
    does not see the pairs before it), the body runs in a child context whose private names are the
    enclosing ones plus the pairs, and the child is popped afterwards
    (`scoped_body_restores_current_context`): the names are visible exactly inside. -/
theorem with_binds_in_a_child_context (fuel : Nat) (pairs : List (Bytes × Expr)) (body : List Node) :
    execNode T cfg g (fuel + 1) (.tagWith pairs body) = (do
      let fr ← cur
      let pvs ← evalPairs T cfg g fuel pairs
      withFrame { childOf fr with priv := pvs.foldl (fun (e : Env) kv => e.set kv.1 kv.2) (childOf fr).priv }
        (execNodes T cfg g fuel body)) := by
  unfold execNode
  rfl

/-! ### the caller's data -/

/-- **A context key that is not an identifier is rejected**: execution fails
    before anything is rendered. -/
theorem bad_key_rejected (fuel ti : Nat) (ctx : Env) (σ : ES) (k : Bytes) (v : Val)
    (hk : identOk k = false) (hmem : (k, v) ∈ Env.update g ctx) :
    ∃ e, (executeTplUnbuffered T cfg g (fuel + 1) ti ctx).run σ = .error e σ ∧ e.kind = .exec := by
  have hfind : ((Env.update g ctx).find? (fun kv => !identOk kv.fst)).isSome := by
    rw [List.find?_isSome]
    exact ⟨(k, v), hmem, by simp [hk]⟩
  obtain ⟨w, hw⟩ := Option.isSome_iff_exists.mp hfind
  refine ⟨{ kind := .exec, msg := "context-key is not a valid identifier" }, ?_, rfl⟩
  simp [executeTplUnbuffered, EStateM.run, bind, EStateM.bind, get, getThe, MonadStateOf.get, EStateM.get, hw, xerr,
    throw, throwThe, MonadExceptOf.throw, EStateM.throw]

/-- **A context key (or global) that clashes with an exported macro is rejected — of the executed
    template or of any template it extends** (D66): when all keys are identifiers and one of them is
    the name of a macro exported somewhere along the inheritance chain, execution fails before
    anything is rendered. -/
theorem macro_clash_rejected (fuel ti : Nat) (ctx : Env) (σ : ES) (k : Bytes) (v : Val) (i : Nat)
    (hids : (Env.update g ctx).find? (fun kv => !identOk kv.fst) = none)
    (hmem : (k, v) ∈ Env.update g ctx)
    (hi : i ∈ chainOf σ.cs.tpls (σ.cs.tpls.size + 1) ti)
    (hexp : ((σ.cs.tpls[i]!).exported.lookup k).isSome = true) :
    ∃ e, (executeTplUnbuffered T cfg g (fuel + 1) ti ctx).run σ = .error e σ ∧ e.kind = .exec := by
  have hfind : ((Env.update g ctx).find? (fun kv =>
      (chainOf σ.cs.tpls (σ.cs.tpls.size + 1) ti).any fun j => ((σ.cs.tpls[j]!).exported.lookup kv.1).isSome)).isSome := by
    rw [List.find?_isSome]
    exact ⟨(k, v), hmem, by simp only [List.any_eq_true]; exact ⟨i, hi, hexp⟩⟩
  obtain ⟨w, hw⟩ := Option.isSome_iff_exists.mp hfind
  refine ⟨{ kind := .exec, msg := "context key name clashes with macro" }, ?_, rfl⟩
  simp [executeTplUnbuffered, EStateM.run, bind, EStateM.bind, get, getThe, MonadStateOf.get, EStateM.get, hids, hw, xerr,
    throw, throwThe, MonadExceptOf.throw, EStateM.throw]

/-- the regenerated effect table contains no store through
    `ExecutionContext.Public`, the `Globals` of a set or the `context`
    parameter of an Execute method (it is empty altogether) -/
theorem gen_caller_data_never_written : Gen.execWrites = [] := by decide

/-! ### non-vacuity -/
example : identOk b!"bad key" = false ∧ identOk b!"good_1" = true := by decide

/-! ### the whole interpreter: nothing a construct binds escapes it

`sview fs` is the context stack `fs` itself: "unchanged" below means identical — every context's
identity, private and public bindings, escaping mode, template chain and recursion counter.  These theorems hold for
every fuel, every node / expression (any nesting), every starting state, and whether or not the
execution fails; they come from one simultaneous induction over all functions of the interpreter
(`Lemmas/KeepsAll.lean`). -/

/-- **No construct touches an enclosing context.**  Executing any node leaves every context below
    the current one — the caller's context among them — exactly as it was, and the stack as high
    as it was. -/
theorem constructs_never_touch_enclosing_contexts (fuel : Nat) (n : Node) (σ : ES) (h : σ.frames ≠ []) :
    (resState ((execNode T cfg g fuel n).run σ)).frames.length = σ.frames.length ∧
    sview (resState ((execNode T cfg g fuel n).run σ)).frames.tail = sview σ.frames.tail := by
  have := (allKeeps T cfg g fuel).execNode n
  unfold Keeps at this
  exact (this σ h).2

/-- **Expressions bind nothing.**  Evaluating any expression — macro calls, filters, `block.Super`
    included — leaves every context, the current one too, exactly as it was. -/
theorem expressions_bind_nothing (fuel : Nat) (e : Expr) (σ : ES) (h : σ.frames ≠ []) :
    sview (resState ((eval T cfg g fuel e).run σ)).frames = sview σ.frames := by
  have := (allKeeps T cfg g fuel).eval e
  unfold KeepsTop at this
  exact (this σ h).2

/-- **A body run in a child context gives the current context back as it was** (`with`, `for`, a
    macro call, `block`, an included template all run their body this way): bindings made inside —
    by `set`, by nested constructs, by anything — end with the body. -/
theorem scoped_body_restores_current_context (fr : Frame) (fuel : Nat) (body : List Node) (σ : ES) :
    sview (resState ((withFrame fr (execNodes T cfg g fuel body)).run σ)).frames = sview σ.frames :=
  (withFrame_same fr ((allKeeps T cfg g fuel).execNodes body) σ).2

/-- **A whole execution leaves the stack as it found it** — also the first one, started without
    any context, and also when it fails. -/
theorem execution_leaves_stack_as_found (fuel ti : Nat) (ctx : Env) (σ : ES) :
    sview (resState ((executeTpl T cfg g fuel ti ctx).run σ)).frames = sview σ.frames := by
  have := keepsAny_executeTpl T cfg g fuel ti ctx
  unfold KeepsAny at this
  exact (this σ).2

-- non-vacuity: a state with two contexts
example : ({ frames := [default, default] } : ES).frames ≠ [] := by simp

end Pongo.C12

/-
  C10 — Inheritance: the most-derived block wins, Super reaches the parent.
  Property theorems only.
-/
import Pongo.Lemmas.Eval

namespace Pongo.C10

variable (T : LexTables) (cfg : SetCfg) (g : Env)

theorem filterMap_getLast? {α β} (f : α → Option β) (l : List α) :
    (l.filterMap f).getLast? = l.reverse.findSome? f := by
  induction l with
  | nil => simp
  | cons x t ih =>
    simp only [List.reverse_cons, List.findSome?_append, List.findSome?_cons, List.findSome?_nil, List.filterMap_cons]
    rw [← ih]
    cases hf : f x with
    | none => simp
    | some y =>
      simp only [List.getLast?_cons]
      cases (List.filterMap f t).getLast? <;> simp

/-- **The most-derived block wins**: the definition a `block` tag renders is
    the one found first when going from the rendered (leaf) template towards
    the root — whatever the length of the chain. -/
theorem block_most_derived (tpls : Array Tpl) (chain : List Nat) (name : Bytes) :
    (blockWrappers tpls chain name).getLast? = chain.reverse.findSome? (fun i => (tpls[i]!).blocks.lookup name) := by
  unfold blockWrappers
  exact filterMap_getLast? _ _

/-- `block.Super` at the base definition is empty (and already-escaped markup). -/
theorem super_at_base (fuel fid : Nat) (name : Bytes) (σ : ES) :
    (callSuper T cfg g (fuel + 1) fid name 0).run σ = .ok ⟨.str [], true⟩ σ := by
  simp [callSuper, EStateM.run, pure, EStateM.pure]

/-- The definitions less derived than the `j`-th one are exactly the first `j`
    wrappers: `Super` inside definition `j` indexes definition `j - 1`, whose own
    `Super` indexes `j - 2`, and so on down to the base. -/
theorem super_indexes_next (ws : List (List Node)) (j : Nat) (h : j < ws.length) (hj : 0 < j) :
    (ws.take j).getLast? = ws[j - 1]? := by
  rw [List.getLast?_eq_getElem?]
  simp only [List.length_take, Nat.min_eq_left (Nat.le_of_lt h)]
  rw [List.getElem?_take]
  simp [Nat.sub_lt hj]

/-- **Rendering starts at the root ancestor**: the chain of a template ends
    with the template itself and begins with its root; what a child writes
    outside blocks is therefore never executed. -/
theorem chain_ends_with_self (tpls : Array Tpl) (fuel i : Nat) : (chainOf tpls fuel i).getLast? = some i := by
  induction fuel generalizing i with
  | zero => simp [chainOf]
  | succ n ih =>
    simp only [chainOf]
    split <;> simp

/-! ### non-vacuity -/
example : (blockWrappers #[
      { name := b!"base", isString := false, nodes := [], blocks := [(b!"a", [.tagComment]), (b!"b", [])], parent := none,
        exported := [], trimBlocks := false, lstripBlocks := false },
      { name := b!"child", isString := false, nodes := [], blocks := [(b!"a", [])], parent := some 0,
        exported := [], trimBlocks := false, lstripBlocks := false }] [0, 1] b!"a").length = 2 := by decide

end Pongo.C10

/-
  C10 — Inheritance: the most-derived block wins, Super reaches the parent.
  Property theorems only.
-/
import Pongo.Lemmas.Eval
import Pongo.Model.ParseDoc
import Pongo.Gen.FilterFacts

namespace Pongo.C10

variable (T : LexTables) (cfg : SetCfg) (g : Env)

theorem filterMap_getLast? {α β} (f : α → Option β) (l : List α) :
    (l.filterMap f).getLast? = l.reverse.findSome? f := by
  induction l with
  | nil => simp
  | cons x t ih =>
    simp only [List.reverse_cons, List.findSome?_append, List.findSome?_cons, List.findSome?_nil, List.filterMap_cons]
    rw [← ih]
    cases hf : f x with
    | none => simp
    | some y =>
      simp only [List.getLast?_cons]
      cases (List.filterMap f t).getLast? <;> simp

/-- **The most-derived block wins**: the definition a `block` tag renders is
    the one found first when going from the rendered (leaf) template towards
    the root — whatever the length of the chain. -/
theorem block_most_derived (tpls : Array Tpl) (chain : List Nat) (name : Bytes) :
    (blockWrappers tpls chain name).getLast? = chain.reverse.findSome? (fun i => (tpls[i]!).blocks.lookup name) := by
  unfold blockWrappers
  exact filterMap_getLast? _ _

/-- `block.Super` at the base definition is empty (and already-escaped markup). -/
theorem super_at_base (fuel fid : Nat) (name : Bytes) (σ : ES) :
    (callSuper T cfg g (fuel + 1) fid name 0).run σ = .ok ⟨.str [], true⟩ σ := by
  simp [callSuper, EStateM.run, pure, EStateM.pure]

/-- The definitions less derived than the `j`-th one are exactly the first `j`
    wrappers: `Super` inside definition `j` indexes definition `j - 1`, whose own
    `Super` indexes `j - 2`, and so on down to the base. -/
theorem super_indexes_next (ws : List (List Node)) (j : Nat) (h : j < ws.length) (hj : 0 < j) :
    (ws.take j).getLast? = ws[j - 1]? := by
  rw [List.getLast?_eq_getElem?]
  simp only [List.length_take, Nat.min_eq_left (Nat.le_of_lt h)]
  rw [List.getElem?_take]
  simp [Nat.sub_lt hj]

/-- **Rendering starts at the root ancestor**: the chain of a template ends
    with the template itself and begins with its root; what a child writes
    outside blocks is therefore never executed. -/
theorem chain_ends_with_self (tpls : Array Tpl) (fuel i : Nat) : (chainOf tpls fuel i).getLast? = some i := by
  induction fuel generalizing i with
  | zero => simp [chainOf]
  | succ n ih =>
    simp only [chainOf]
    split <;> simp

/-- what the `block` tag leaves behind in the current frame when its body is done: the name
    `block` means the enclosing block again (or nothing) -/
def unbindBlock (outer : Option Val) (s : ES) : ES :=
  match s.frames with
  | h :: t => { s with frames := { h with priv := match outer with
                  | some o => h.priv.set b!"block" o
                  | none => h.priv.filter (·.1 != b!"block") } :: t }
  | [] => s

/-- **A `block` tag renders the most-derived definition, through the interpreter.**  In any
    state, executing the tag is executing the nodes of the last of the definitions found along the
    frame's inheritance chain (by `block_most_derived`: the one of the most-derived template that
    defines the name), with `block` bound to that level for the duration and unbound afterwards —
    on success and on failure alike, output and error passed through unchanged. -/
theorem block_tag_renders_most_derived (fuel : Nat) (name : Bytes) (σ : ES) (fr : Frame) (rest : List Frame)
    (hσ : σ.frames = fr :: rest) (hws : (blockWrappers σ.cs.tpls fr.chain name).length ≠ 0) :
    (execNode T cfg g (fuel + 1) (.tagBlock name)).run σ =
      let ws := blockWrappers σ.cs.tpls fr.chain name
      let σ₁ : ES := { σ with frames := { fr with priv := fr.priv.set b!"block" (.blockinfo fr.id name (ws.length - 1)) } :: rest }
      match (execNodes T cfg g fuel (ws.getD (ws.length - 1) [])).run σ₁ with
      | .ok _ σ₂ => .ok () (unbindBlock (fr.priv.lookup b!"block") σ₂)
      | .error e σ₂ => .error e (unbindBlock (fr.priv.lookup b!"block") σ₂) := by
  obtain ⟨frames, a, b, c, d, e, f⟩ := σ
  simp only at hσ
  subst hσ
  have hws' : ((blockWrappers f.tpls fr.chain name).length == 0) = false := by simpa using hws
  simp only [execNode, cur, modifyCur, EStateM.run, bind, EStateM.bind, get, getThe, MonadStateOf.get, EStateM.get,
    pure, EStateM.pure, modify, modifyGet, MonadStateOf.modifyGet, EStateM.modifyGet, hws', Bool.false_eq_true, if_false,
    tryCatch, tryCatchThe, MonadExceptOf.tryCatch, EStateM.tryCatch, EStateM.Backtrackable.save,
    EStateM.Backtrackable.restore, EStateM.dummySave, EStateM.dummyRestore, throw, throwThe, MonadExceptOf.throw, EStateM.throw]
  cases execNodes T cfg g fuel _ _ with
  | ok u s => simp only [unbindBlock]; cases s.frames <;> rfl
  | error err s => simp only [unbindBlock]; cases s.frames <;> rfl

/-- **`block.Super` renders the next less-derived definition, to any depth.**  Inside the
    definition at level `lvl > 0` of the chain of frame `fid`, `block.Super` is: render the
    definition at level `lvl - 1` into a buffer of its own, in a child context in which `block`
    names level `lvl - 1` (so a `block.Super` written there goes one level further down, and at
    level 0 `super_at_base` ends the descent), and hand the text back as already-escaped markup. -/
theorem super_renders_next_less_derived (fuel fid : Nat) (name : Bytes) (lvl : Nat) (σ : ES) (fr : Frame)
    (hfr : σ.frames.find? (·.id == fid) = some fr) (hl : lvl ≠ 0) :
    (callSuper T cfg g (fuel + 1) fid name lvl).run σ =
      ((do
        let out ← withFrame { childOf fr with priv := (childOf fr).priv.set b!"block" (.blockinfo fid name (lvl - 1)) }
          (buffered (execNodes T cfg g fuel ((blockWrappers σ.cs.tpls fr.chain name).getD (lvl - 1) [])))
        pure ⟨.str out, true⟩ : XM V).run σ) := by
  have hl' : (lvl == 0) = false := by simpa using hl
  simp only [callSuper, getFrame, hl', Bool.false_eq_true, if_false, EStateM.run, bind, EStateM.bind, get, getThe,
    MonadStateOf.get, EStateM.get, hfr, pure, EStateM.pure]

/-- the cap on blocks rendering inside each other (the guard against blocks that contain each
    other through inheritance) leaves room for a thousand levels of honest nesting (regenerated) -/
theorem gen_block_depth_cap : 1000 ≤ Gen.maxBlockDepth := by decide

/-! ### the compile errors -/

/-- **A second `extends`, or one below the root level, is a compile error**: whatever else the tag
    says and wherever its file would come from, the parser refuses it before looking at anything. -/
theorem second_or_nested_extends_rejected (fuel : Nat) (start close : Tok) (args : PS) (ds : DS)
    (hs : start.val = b!"extends") (h : ds.ts.level > 1 ∨ ds.ts.parent.isSome = true) :
    ∃ e, tagParser T cfg (fuel + 1) start close args ds = .error e := by
  unfold tagParser
  rw [if_neg (by rw [hs]; decide), if_neg (by rw [hs]; decide), if_neg (by rw [hs]; decide), if_neg (by rw [hs]; decide),
    if_pos (by rw [hs]; decide)]
  by_cases hl : ds.ts.level > 1
  · rw [if_pos hl]; exact ⟨_, rfl⟩
  · rw [if_neg hl]
    rcases h with h | h
    · exact absurd h hl
    · rw [if_pos h]; exact ⟨_, rfl⟩

/-- **A duplicate block name is a compile error**: when the body of a `block` tag has been parsed
    and the template already has a block of that name — defined before it, or inside its own body —
    the tag is refused. -/
theorem duplicate_block_rejected (fuel : Nat) (start close nameTok : Tok) (args args' endargs : PS) (ds ds' : DS)
    (body : List Node) (et : Bytes) (last : Option Tok)
    (hs : start.val = b!"block") (hc : args.count ≠ 0) (hm : args.matchType .ident = some (nameTok, args'))
    (hr : args'.remaining = 0)
    (hw : wrapUntil T cfg fuel [b!"endblock"] [] (some close) ds = .ok (body, et, endargs, last, ds'))
    (he : endargs.remaining = 0) (hdup : (ds'.ts.blocks.lookup nameTok.val).isSome = true) :
    tagParser T cfg (fuel + 1) start close args ds = .error (args'.err "Block already defined") := by
  unfold tagParser
  rw [if_neg (by rw [hs]; decide), if_pos (by rw [hs]; decide), if_neg hc]
  simp only [hm]
  rw [if_neg (by simp [hr])]
  simp only [hw, bind, Except.bind, he, Nat.lt_irrefl, if_false, gt_iff_lt, pure, Except.pure, hdup, if_true]

/-! ### non-vacuity -/
example : (blockWrappers #[
      { name := b!"base", isString := false, nodes := [], blocks := [(b!"a", [.tagComment]), (b!"b", [])], parent := none,
        exported := [], trimBlocks := false, lstripBlocks := false },
      { name := b!"child", isString := false, nodes := [], blocks := [(b!"a", [])], parent := some 0,
        exported := [], trimBlocks := false, lstripBlocks := false }] [0, 1] b!"a").length = 2 := by decide

end Pongo.C10

/-
  C16 — Diagnostics point at the right place.  Property theorems only.

  `Spec.lineCol` is the closed form a reader expects: line = 1 + number of
  newlines before the offset, column = 1 + bytes since the last newline.  The
  lexer keeps these incrementally (`Pos.step`, `Pos.adv`); the theorems relate
  the two.
-/
import Pongo.Lemmas.Lex
import Pongo.Gen.LexTables

namespace Pongo.C16

/-- number of bytes after the last newline of `s` -/
def sinceNewline (s : Bytes) : Nat := (s.reverse.takeWhile (· ≠ 0x0a)).length

/-- closed-form position of the byte that follows the prefix `pre` -/
def lineCol (pre : Bytes) : Nat × Nat := (1 + pre.count 0x0a, 1 + sinceNewline pre)

theorem sinceNewline_snoc (s : Bytes) (c : UInt8) :
    sinceNewline (s ++ [c]) = if c = 0x0a then 0 else sinceNewline s + 1 := by
  unfold sinceNewline
  simp only [List.reverse_append, List.reverse_cons, List.reverse_nil, List.nil_append, List.cons_append]
  by_cases h : c = 0x0a
  · simp [h, List.takeWhile]
  · simp [h, List.takeWhile]

/-- The text loop's incremental bookkeeping equals the closed form, for every
    prefix (any bytes, any number of lines). -/
theorem textPos_closed_form (pre : Bytes) :
    textPos Pos.init pre = ⟨(lineCol pre).1, (lineCol pre).2, pre.length⟩ := by
  induction pre using rev_ind with
  | h0 => simp [textPos, lineCol, sinceNewline, Pos.init]
  | h1 s c ih =>
    simp only [textPos, List.foldl_append, List.foldl_cons, List.foldl_nil] at ih ⊢
    rw [ih]
    simp only [lineCol, sinceNewline_snoc, List.count_append, List.length_append, List.length_cons, List.length_nil]
    by_cases h : c = 0x0a
    · subst h; simp [Pos.step]; omega
    · have : List.count 0x0a [c] = 0 := by simp [h]
      simp [Pos.step, h, this]; omega

/-- Advancing inside a tag (where no newline is ever consumed) keeps the closed form. -/
theorem adv_closed_form (pre mid : Bytes) (h : ∀ c ∈ mid, c ≠ 0x0a) :
    (⟨(lineCol pre).1, (lineCol pre).2, pre.length⟩ : Pos).adv mid.length =
      ⟨(lineCol (pre ++ mid)).1, (lineCol (pre ++ mid)).2, (pre ++ mid).length⟩ := by
  induction mid using rev_ind with
  | h0 => simp [Pos.adv]
  | h1 s c ih =>
    have hs : ∀ c ∈ s, c ≠ 0x0a := fun c hc => h c (by simp [hc])
    have hc : c ≠ 0x0a := h c (by simp)
    have ih := ih hs
    simp only [Pos.adv, Pos.mk.injEq, true_and] at ih ⊢
    rw [← List.append_assoc]
    simp only [lineCol, sinceNewline_snoc, hc, if_false, List.count_append, List.length_append,
      List.length_cons, List.length_nil] at ih ⊢
    have : List.count 0x0a [c] = 0 := by simp [hc]
    omega

/-- A delimiter-free source is one token positioned at line 1, column 1. -/
theorem text_token_position (s : Bytes) (hn : noOpen s = true) (hne : s ≠ []) :
    ∃ t, lex Gen.lexTables s = .ok [t] ∧ (t.line, t.col) = lineCol (s.take t.off) ∧ t.val = s := by
  refine ⟨⟨.html, s, 1, 1, false, 0⟩, ?_, ?_, rfl⟩
  · exact text_identity_partial' s hn hne
  · simp [lineCol, sinceNewline]
where
  text_identity_partial' (s : Bytes) (hn : noOpen s = true) (hne : s ≠ []) :
      lex Gen.lexTables s = .ok [⟨.html, s, 1, 1, false, 0⟩] := by
    unfold lex
    rw [run_text Gen.lexTables (by decide) s RunSt.init rfl hn (by intro c _; simp [show Gen.lexTables.eofByte = none by decide])]
    simp [finish, RunSt.flush, RunSt.init, hne, Pos.init]

/-- The widths the lexer adds after matching the verbatim markers are the
    lengths of the markers, so positions after a verbatim block stay exact. -/
theorem gen_verbatim_widths : VerbTablesOK Gen.lexTables = true := by decide

/-- No symbol, identifier, digit or quote character is a newline: inside a tag
    the column is only ever advanced by the number of bytes consumed. -/
theorem gen_no_newline_in_tag_tables :
    (Gen.lexTables.symbols.all (fun s => !s.elem 0x0a) &&
     !Gen.lexTables.identDigitChars.elem 0x0a && !Gen.lexTables.identChars.elem 0x0a &&
     !Gen.lexTables.digits.elem 0x0a && !Gen.lexTables.quotes.elem 0x0a) = true := by decide

-- non-vacuity: "ab\ncd\n\ne" has line 4, column 2 after it
example : lineCol [0x61, 0x62, 0x0a, 0x63, 0x64, 0x0a, 0x0a, 0x65] = (4, 2) := by decide

end Pongo.C16

/-
  C16 — Diagnostics point at the right place.  Property theorems only.

  `Spec.lineCol` is the closed form a reader expects: line = 1 + number of
  newlines before the offset, column = 1 + bytes since the last newline.  The
  lexer keeps these incrementally (`Pos.step`, `Pos.adv`); the theorems relate
  the two.
-/
import Pongo.Lemmas.LexPos
import Pongo.Gen.LexTables

namespace Pongo.C16
open Pongo

-- `sinceNewline`, `lineCol` (line = 1 + newlines before, column = 1 + bytes since the last newline),
-- `posOf` and `TokOK` are defined in `Lemmas/LexPos.lean`

/-! ### every token, every lexer error, every input -/

theorem gen_tag_tables_ok : TagTablesOK Gen.lexTables = true := by decide
theorem gen_markers_ok : MarkersOK Gen.lexTables = true := by decide

/-- **Every token the lexer produces records the line and column at which its text starts**, for
    every source (any bytes, any length, any mix of text, tags, strings with escapes, comments,
    verbatim blocks): `off` is the offset of the token's first byte and (line, col) is the closed
    form for that offset. -/
theorem token_positions_exact (s : Bytes) (toks : List Tok) (h : lex Gen.lexTables s = .ok toks) :
    ∀ t ∈ toks, t.off ≤ s.length ∧ (t.line, t.col) = lineCol (s.take t.off) := by
  have := lex_pos Gen.lexTables gen_tag_tables_ok gen_markers_ok s
  rw [h] at this
  intro t ht
  exact ⟨(this t ht).1, (this t ht).2.1⟩

/-- **Every lexer error points at a position inside the source**: the reported line and column are
    the closed form for a prefix of the source (the start of the construct that is wrong). -/
theorem lexer_error_position_exact (s : Bytes) (e : LexErr) (h : lex Gen.lexTables s = .err e) :
    ∃ pre, pre <+: s ∧ (e.line, e.col) = lineCol pre ∧ e.off = pre.length := by
  have := lex_pos Gen.lexTables gen_tag_tables_ok gen_markers_ok s
  rw [h] at this
  exact this

theorem takeWhile_append_of_mem (l m : Bytes) (h : (0x0a : UInt8) ∈ l) :
    (l ++ m).takeWhile (· ≠ 0x0a) = l.takeWhile (· ≠ 0x0a) := by
  induction l with
  | nil => cases h
  | cons c t ih =>
    by_cases hc : c = 0x0a
    · simp [List.takeWhile, hc]
    · have : (0x0a : UInt8) ∈ t := by
        rcases List.mem_cons.1 h with h1 | h1
        · exact absurd h1.symm hc
        · exact h1
      simp only [List.cons_append, List.takeWhile, hc, ne_eq, not_false_eq_true, decide_true]
      rw [ih this]

theorem takeWhile_append_of_all (l m : Bytes) (h : ∀ c ∈ l, c ≠ 0x0a) :
    (l ++ m).takeWhile (· ≠ 0x0a) = l ++ m.takeWhile (· ≠ 0x0a) := by
  induction l with
  | nil => rfl
  | cons c t ih =>
    have hc : c ≠ 0x0a := h c List.mem_cons_self
    simp only [List.cons_append, List.takeWhile, hc, ne_eq, not_false_eq_true, decide_true]
    rw [ih (fun x hx => h x (List.mem_cons_of_mem _ hx))]

/-- **Inserting text in front shifts a position by exactly the inserted lines and columns**: the
    line grows by the number of inserted newlines; the column is unchanged if a newline lies between,
    and grows by the bytes inserted after the last inserted newline otherwise. -/
theorem insertion_shifts_position (ins pre : Bytes) :
    (lineCol (ins ++ pre)).1 = (lineCol pre).1 + ins.count 0x0a ∧
    (lineCol (ins ++ pre)).2 = (if 0x0a ∈ pre then (lineCol pre).2 else (lineCol pre).2 + sinceNewline ins) := by
  constructor
  · simp [lineCol, List.count_append]; omega
  · simp only [lineCol, sinceNewline, List.reverse_append]
    by_cases h : (0x0a : UInt8) ∈ pre
    · simp only [h, if_true]
      rw [takeWhile_append_of_mem _ _ (by simpa using h)]
    · simp only [h, if_false]
      rw [takeWhile_append_of_all _ _ (by intro c hc he; subst he; exact h (by simpa using hc))]
      have h2 : pre.reverse.takeWhile (· ≠ 0x0a) = pre.reverse := by
        have := takeWhile_append_of_all pre.reverse [] (by intro c hc he; subst he; exact h (by simpa using hc))
        simpa using this
      rw [h2]
      simp; omega

/-- The text loop's incremental bookkeeping equals the closed form, for every
    prefix (any bytes, any number of lines). -/
theorem textPos_closed_form (pre : Bytes) :
    textPos Pos.init pre = ⟨(lineCol pre).1, (lineCol pre).2, pre.length⟩ := by
  induction pre using rev_ind with
  | h0 => simp [textPos, lineCol, sinceNewline, Pos.init]
  | h1 s c ih =>
    simp only [textPos, List.foldl_append, List.foldl_cons, List.foldl_nil] at ih ⊢
    rw [ih]
    simp only [lineCol, sinceNewline_snoc, List.count_append, List.length_append, List.length_cons, List.length_nil]
    by_cases h : c = 0x0a
    · subst h; simp [Pos.step]; omega
    · have : List.count 0x0a [c] = 0 := by simp [h]
      simp [Pos.step, h, this]; omega

/-- Advancing inside a tag (where no newline is ever consumed) keeps the closed form. -/
theorem adv_closed_form (pre mid : Bytes) (h : ∀ c ∈ mid, c ≠ 0x0a) :
    (⟨(lineCol pre).1, (lineCol pre).2, pre.length⟩ : Pos).adv mid.length =
      ⟨(lineCol (pre ++ mid)).1, (lineCol (pre ++ mid)).2, (pre ++ mid).length⟩ := by
  induction mid using rev_ind with
  | h0 => simp [Pos.adv]
  | h1 s c ih =>
    have hs : ∀ c ∈ s, c ≠ 0x0a := fun c hc => h c (by simp [hc])
    have hc : c ≠ 0x0a := h c (by simp)
    have ih := ih hs
    simp only [Pos.adv, Pos.mk.injEq, true_and] at ih ⊢
    rw [← List.append_assoc]
    simp only [lineCol, sinceNewline_snoc, hc, if_false, List.count_append, List.length_append,
      List.length_cons, List.length_nil] at ih ⊢
    have : List.count 0x0a [c] = 0 := by simp [hc]
    omega

/-- A delimiter-free source is one token positioned at line 1, column 1. -/
theorem text_token_position (s : Bytes) (hn : noOpen s = true) (hne : s ≠ []) :
    ∃ t, lex Gen.lexTables s = .ok [t] ∧ (t.line, t.col) = lineCol (s.take t.off) ∧ t.val = s := by
  refine ⟨⟨.html, s, 1, 1, false, 0⟩, ?_, ?_, rfl⟩
  · exact text_identity_partial' s hn hne
  · simp [lineCol, sinceNewline]
where
  text_identity_partial' (s : Bytes) (hn : noOpen s = true) (hne : s ≠ []) :
      lex Gen.lexTables s = .ok [⟨.html, s, 1, 1, false, 0⟩] := by
    unfold lex
    rw [run_text Gen.lexTables (by decide) s RunSt.init rfl hn (by intro c _; simp [show Gen.lexTables.eofByte = none by decide])]
    simp [finish, RunSt.flush, RunSt.init, hne, Pos.init]

/-- The widths the lexer adds after matching the verbatim markers are the
    lengths of the markers, so positions after a verbatim block stay exact. -/
theorem gen_verbatim_widths : VerbTablesOK Gen.lexTables = true := by decide

/-- No symbol, identifier, digit or quote character is a newline: inside a tag
    the column is only ever advanced by the number of bytes consumed. -/
theorem gen_no_newline_in_tag_tables :
    (Gen.lexTables.symbols.all (fun s => !s.elem 0x0a) &&
     !Gen.lexTables.identDigitChars.elem 0x0a && !Gen.lexTables.identChars.elem 0x0a &&
     !Gen.lexTables.digits.elem 0x0a && !Gen.lexTables.quotes.elem 0x0a) = true := by decide

-- non-vacuity: "ab\ncd\n\ne" has line 4, column 2 after it
example : lineCol [0x61, 0x62, 0x0a, 0x63, 0x64, 0x0a, 0x0a, 0x65] = (4, 2) := by decide

end Pongo.C16

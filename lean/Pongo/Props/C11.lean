/-
  C11 — Templates are composed only through the set's loaders, by the names written.
  Property theorems only.
-/
import Pongo.Model.ParseDoc
import Pongo.Props.C13
import Pongo.Gen.OSAccess
import Pongo.Gen.LoadSites

namespace Pongo.C11

/-- **First loader wins, nothing else is fetched**: asking the loaders for a
    name yields the content of the first loader that has it; every `Get`
    performed is for exactly that name; loaders behind the hit are not asked. -/
theorem first_loader_wins (name : Bytes) (ls : List (List (Bytes × Bytes))) (i : Nat) (log : List (Nat × Bytes)) :
    (tryLoaders name ls i log).1 = ls.findSome? (·.lookup name) ∧
    ∃ k, k ≤ ls.length ∧ (tryLoaders name ls i log).2 = log ++ (List.range k).map (fun j => (i + j, name)) ∧
      (∀ j, j + 1 < k → (ls[j]?.bind (·.lookup name)) = none) := by
  induction ls generalizing i log with
  | nil => exact ⟨rfl, 0, Nat.le_refl _, by simp [tryLoaders], by simp⟩
  | cons l rest ih =>
    simp only [tryLoaders, List.findSome?_cons]
    cases hl : l.lookup name with
    | some c =>
      refine ⟨rfl, 1, by simp, by simp, ?_⟩
      intro j hj; omega
    | none =>
      obtain ⟨h1, k, hk, h2, h3⟩ := ih (i + 1) (log ++ [(i, name)])
      refine ⟨h1, k + 1, by simp; omega, ?_, ?_⟩
      · rw [h2, List.range_succ_eq_map]
        simp only [List.map_cons, List.map_map, Nat.add_zero, List.append_assoc, List.singleton_append]
        congr 2
        apply List.map_congr_left
        intro j _
        simp only [Function.comp]
        congr 1
        omega
      · intro j hj
        cases j with
        | zero => simp [hl]
        | succ j' => simpa using h3 j' (by omega)

/-- **A name no loader has is an error** (and every loader was asked once). -/
theorem missing_is_error (name : Bytes) (ls : List (List (Bytes × Bytes))) (i : Nat) (log : List (Nat × Bytes))
    (h : ∀ l ∈ ls, l.lookup name = none) :
    tryLoaders name ls i log = (none, log ++ (List.range ls.length).map (fun j => (i + j, name))) := by
  induction ls generalizing i log with
  | nil => simp [tryLoaders]
  | cons l rest ih =>
    simp only [tryLoaders, h l (List.mem_cons_self)]
    rw [ih (i + 1) _ (fun l' hl' => h l' (List.mem_cons_of_mem _ hl'))]
    rw [List.length_cons, List.range_succ_eq_map]
    simp only [List.map_cons, List.map_map, Nat.add_zero, List.append_assoc, List.singleton_append]
    simp only [Prod.mk.injEq, List.append_cancel_left_eq, List.cons.injEq, true_and]
    apply List.map_congr_left
    intro j _
    simp only [Function.comp]
    congr 1
    omega

/-- **Rooted names do not depend on who refers to them**: resolved against any
    referring template — or computed at run time — a rooted name is the same
    name. -/
theorem rooted_name_independent_of_referrer (base1 base2 name : Bytes) (h : Path.isAbs name = true) :
    Path.abs base1 name = Path.abs base2 name := by
  simp [Path.abs, h]

/-- Relative names are resolved against the directory of the referring template. -/
theorem relative_name_uses_referrer_dir (base name : Bytes) (h : Path.isAbs name = false) (hb : base ≠ []) :
    Path.abs base name = Path.join2 (Path.dir base) name := by
  simp [Path.abs, h, hb]

/-- a template compiled from a string has no directory: names are used as written -/
theorem string_template_names_as_written (tplName path : Bytes) : resolveFilename true tplName path = path := by
  simp [resolveFilename]

/-! ### the code reaches the file system only through the loaders (regenerated) -/

/-! ### what an included template sees, through the interpreter -/

section inclusion
variable (T : LexTables) (cfg : SetCfg) (g : Env)

/-- the context handed to an included template -/
def includeCtx (only : Bool) (fr : Frame) (pvs : List (Bytes × Val)) : Env :=
  pvs.foldl (fun (e : Env) kv => e.set kv.1 kv.2) (if only then [] else (Env.update fr.pub fr.priv))

/-- **`include` executes the template it names, with the includer's variables plus the pairs.**
    The node of an `include` of a literal name holds the index `ti` of the template that
    `fromFile` compiled for that name (C11's loader theorems say which one that is); executing
    the node evaluates the `with` pairs in the includer's scope and executes exactly that template
    on `includeCtx`. -/
theorem include_executes_named_template (fuel ti : Nat) (only : Bool) (pairs : List (Bytes × Expr)) :
    execNode T cfg g (fuel + 1) (.tagInclude (.static ti) only pairs) = (do
      let fr ← cur
      let pvs ← evalPairs T cfg g fuel pairs
      executeTpl T cfg g fuel ti (includeCtx only fr pvs)) := by
  unfold execNode
  rfl

/-- with `only`, a name that is not one of the pairs is not there -/
theorem include_only_hides_includer (fr : Frame) (pvs : List (Bytes × Val)) (k : Bytes) (h : ∀ p ∈ pvs, p.1 ≠ k) :
    (includeCtx true fr pvs).lookup k = none := by
  unfold includeCtx
  rw [C13.foldl_set_other pvs _ k h]
  rfl

/-- without `only`, a name that is not one of the pairs is the includer's -/
theorem include_sees_includer (fr : Frame) (pvs : List (Bytes × Val)) (k : Bytes) (h : ∀ p ∈ pvs, p.1 ≠ k) :
    (includeCtx false fr pvs).lookup k = (Env.update fr.pub fr.priv).lookup k := by
  unfold includeCtx
  rw [C13.foldl_set_other pvs _ k h]
  rfl

/-- a pair is visible under its name (the last one of that name), with or without `only` -/
theorem include_sees_pair (only : Bool) (fr : Frame) (before after : List (Bytes × Val)) (k : Bytes) (v : Val)
    (h : ∀ p ∈ after, p.1 ≠ k) :
    (includeCtx only fr (before ++ (k, v) :: after)).lookup k = some v := by
  unfold includeCtx
  rw [List.foldl_append, List.foldl_cons]
  exact C13.foldl_set_last after _ k v h

example : (includeCtx true default [(b!"a", .int 1)]).lookup b!"b" = none ∧
    (includeCtx true default [(b!"a", .int 1), (b!"a", .int 2)]).lookup b!"a" = some (.int 2) := by
  constructor
  · exact include_only_hides_includer default _ _ (by intro p hp; simp at hp; subst hp; decide)
  · exact include_sees_pair true default [(b!"a", .int 1)] [] b!"a" (.int 2) (by intro p hp; cases hp)

end inclusion

section compile
variable (T : LexTables) (cfg : SetCfg)

/-- **A missing name is an error — or nothing, with `if_exists`**: when the file an `include` names
    (resolved against the including template) is served by no loader, the tag is a compile error
    without `if_exists`; with it the tag compiles to the node that renders nothing (and the fetch
    attempts stay in the log). -/
theorem include_missing_is_error_or_nothing (fuel : Nat) (start close f : Tok) (args a1 a2 : PS) (ifExists : Bool) (ds : DS) (e : PErr)
    (hs : start.val = b!"include") (hm : args.matchType .str = some (f, a1))
    (ho : a1.optIdent b!"if_exists" = (ifExists, a2))
    (hff : fromFile T cfg fuel ds.cs (resolveFilename ds.ts.isString ds.ts.name f.val) = .error e)
    (hk : e.kind = .fromfile) (hfile : e.file = resolveFilename ds.ts.isString ds.ts.name f.val) :
    tagParser T cfg (fuel + 1) start close args ds =
      if ifExists then
        .ok (.tagInclude .empty false [], some close,
          { ds with cs := { ds.cs with fetchLog := ds.cs.fetchLog ++
              (cfg.loaders.zipIdx.map fun (_, i) => (i, Path.abs [] (resolveFilename ds.ts.isString ds.ts.name f.val))) } })
      else .error e := by
  unfold tagParser
  rw [if_neg (by rw [hs]; decide), if_neg (by rw [hs]; decide), if_neg (by rw [hs]; decide), if_neg (by rw [hs]; decide),
    if_neg (by rw [hs]; decide), if_neg (by rw [hs]; decide), if_neg (by rw [hs]; decide), if_neg (by rw [hs]; decide),
    if_neg (by rw [hs]; decide), if_neg (by rw [hs]; decide), if_neg (by rw [hs]; decide), if_neg (by rw [hs]; decide),
    if_pos (by rw [hs]; decide)]
  have hk' : (e.kind == ErrKind.fromfile) = true := by rw [hk]; rfl
  have hf' : (e.file == resolveFilename ds.ts.isString ds.ts.name f.val) = true := by rw [hfile]; simp
  cases ifExists <;>
    simp [hm, ho, hff, hk', hf', bind, Except.bind, pure, Except.pure]

end compile

/-- outside template_loader.go the only use of os / io/fs / ioutil / net/http
    file or network access is `Error.RawLine` (a diagnostic helper that is not
    on any compile or execute path) -/
theorem gen_no_os_access : Gen.osAccess.all (fun s => s.1 == "Error.RawLine") = true := by decide

/-- the loaders are asked in exactly one place, the in-order loop `resolveTemplate`
    (the model's `tryLoaders`): nothing else in the package calls a loader's `Get` -/
theorem gen_loaders_asked_in_one_place :
    (Gen.loadSites.filter (·.2.1 == "TemplateLoader.Get")).map (·.1) = ["TemplateSet.resolveTemplate"] := by decide

/-- every tag that refers to another template (`extends`, `import`, `include` at compile time
    and at run time, `ssi` in both forms) hands the name *as written* to the function in which
    every loader resolves it relative to the referrer (`fromFileFor` / `resolveTemplate`); no
    site anywhere passes on a name that one loader's `Abs` was already applied to — the shape of
    D69, where the first loader's resolution was handed to the others -/
theorem gen_references_by_written_name :
    Gen.loadSites.all (fun s => s.2.2 != "resolved") = true ∧
    Gen.loadSitesOfTags.all
      (fun s => s.2.1 == "TemplateSet.fromFileFor" || s.2.1 == "TemplateSet.resolveTemplate") = true ∧
    ["tagExtendsParser", "tagImportParser", "tagIncludeNode.Execute", "tagIncludeParser", "tagSSIParser"].all
      (fun f => Gen.loadSites.any (fun s => s.1 == f && s.2.1 == "TemplateSet.fromFileFor")) = true := by decide

/-! ### non-vacuity -/
example : (tryLoaders b!"x" [[(b!"y", b!"1")], [(b!"x", b!"2")], [(b!"x", b!"3")]] 0 []) = (some b!"2", [(0, b!"x"), (1, b!"x")]) := by
  decide

end Pongo.C11

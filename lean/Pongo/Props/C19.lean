/-
  C19 — Filters are applied in written order, everywhere filters can be written.
  Property theorems only.
-/
import Pongo.Lemmas.Eval
import Pongo.Gen.LexTables
import Pongo.Lemmas.Replace
import Pongo.Model.Sets
import Pongo.Gen.Registry

namespace Pongo.C19

variable (T : LexTables) (cfg : SetCfg) (g : Env)

/-- a filter call whose parameter is absent or a literal -/
def litCall (name : Bytes) (param : Option Val) (p : TokPos) : FCall :=
  .mk name (param.map fun v => match v with
    | .int i => Expr.int i p
    | .str s => Expr.str s p
    | .bool b => Expr.bool b p
    | _ => Expr.bool false p) p

def paramVal : Option Val → V
  | none => mkV .nil
  | some (.int i) => mkV (.int i)
  | some (.str s) => mkV (.str s)
  | some (.bool b) => mkV (.bool b)
  | some _ => mkV (.bool false)

/-- Spec: `v|f1:a1|…|fn:an` is `fn(… f1(v, a1) …, an)`, stopping at the first error -/
def applySeq : List (Bytes × Option Val) → V → Option V
  | [], v => some v
  | (name, param) :: rest, v =>
    match applyFilter name v (paramVal param) with
    | .ok r => applySeq rest r
    | _ => none

theorem eval_param (fuel : Nat) (param : Option Val) (p : TokPos) (σ : ES) (name : Bytes) :
    ∀ pe, litCall name param p = .mk name pe p →
      ((match pe with | some e => eval T cfg g (fuel + 1) e | none => pure (mkV .nil)) : XM V).run σ = .ok (paramVal param) σ := by
  intro pe h
  simp only [litCall, FCall.mk.injEq, true_and, and_true] at h
  subst h
  cases param with
  | none => simp [paramVal, EStateM.run, pure, EStateM.pure]
  | some v => cases v <;> simp [paramVal, eval, EStateM.run, pure, EStateM.pure]

/-- **Chain order**: the evaluator applies the filters of a chain left to
    right, each to the result of the previous one with its own parameter, and
    yields exactly the composition — for chains of any length. -/
theorem chain_order (p : TokPos) (chain : List (Bytes × Option Val)) :
    ∀ (v r : V) (σ : ES) (fuel : Nat), fuel ≥ chain.length + 2 → applySeq chain v = some r →
      (applyChain T cfg g fuel (chain.map fun c => litCall c.1 c.2 p) v).run σ = .ok r σ := by
  induction chain with
  | nil =>
    intro v r σ fuel hf h
    obtain ⟨n, rfl⟩ : ∃ n, fuel = n + 1 := ⟨fuel - 1, by simp at hf; omega⟩
    simp only [applySeq, Option.some.injEq] at h
    subst h
    simp [applyChain, EStateM.run, pure, EStateM.pure]
  | cons c rest ih =>
    intro v r σ fuel hf h
    obtain ⟨name, param⟩ := c
    obtain ⟨n, rfl⟩ : ∃ n, fuel = n + 2 := ⟨fuel - 2, by simp at hf; omega⟩
    simp only [applySeq] at h
    cases hap : applyFilter name v (paramVal param) with
    | ok r1 =>
      rw [hap] at h
      have hrest := ih r1 r σ (n + 1) (by simp at hf ⊢; omega) h
      simp only [List.map_cons, litCall]
      rw [applyChain.eq_def]
      simp only
      have hp : ∀ (m : XM V), m.run σ = .ok (paramVal param) σ →
          (m >>= fun pv => match applyFilter name v pv with
            | .ok r => applyChain T cfg g (n + 1) (List.map (fun c => litCall c.fst c.snd p) rest) r
            | .err m => xerr m
            | .unsupported => xerr "filter outside the model" .unsupported).run σ = .ok r σ := by
        intro m hm
        rw [run_bind_ok hm]
        simp only [hap]
        exact hrest
      cases param with
      | none => exact hp _ rfl
      | some pv =>
        cases pv <;> simp only [Option.map_some] <;> apply hp <;>
          simp [paramVal, eval, EStateM.run, pure, EStateM.pure]
    | err m => rw [hap] at h; cases h
    | unsupported => rw [hap] at h; cases h

/-- a link of the `filter` tag's chain whose parameter is absent or a literal -/
def litLink (name : Bytes) (param : Option Val) (p : TokPos) : Bytes × Option Expr :=
  (name, param.map fun v => match v with
    | .int i => Expr.int i p
    | .str s => Expr.str s p
    | .bool b => Expr.bool b p
    | _ => Expr.bool false p)

/-- the `filter` tag's chain is the same composition, for chains of any length -/
theorem tag_chain_order (p : TokPos) (chain : List (Bytes × Option Val)) (hreg : ∀ c ∈ chain, cfg.regFilters.elem c.1 = true) :
    ∀ (v r : V) (σ : ES) (fuel : Nat), fuel ≥ chain.length + 2 → applySeq chain v = some r →
      (applyTagChain T cfg g fuel (chain.map fun c => litLink c.1 c.2 p) v).run σ = .ok r σ := by
  induction chain with
  | nil =>
    intro v r σ fuel hf h
    obtain ⟨n, rfl⟩ : ∃ n, fuel = n + 1 := ⟨fuel - 1, by simp at hf; omega⟩
    simp only [applySeq, Option.some.injEq] at h
    subst h
    simp [applyTagChain, EStateM.run, pure, EStateM.pure]
  | cons c rest ih =>
    intro v r σ fuel hf h
    obtain ⟨name, param⟩ := c
    obtain ⟨n, rfl⟩ : ∃ n, fuel = n + 2 := ⟨fuel - 2, by simp at hf; omega⟩
    have hname : cfg.regFilters.elem name = true := hreg (name, param) List.mem_cons_self
    simp only [applySeq] at h
    cases hap : applyFilter name v (paramVal param) with
    | ok r1 =>
      rw [hap] at h
      have hrest := ih (fun c hc => hreg c (List.mem_cons_of_mem _ hc)) r1 r σ (n + 1) (by simp at hf ⊢; omega) h
      simp only [List.map_cons, litLink]
      rw [applyTagChain.eq_def]
      simp only
      have hp : ∀ (m : XM V), m.run σ = .ok (paramVal param) σ →
          (m >>= fun pv => if (!cfg.regFilters.elem name) = true then xerr "filter not found"
            else match applyFilter name v pv with
            | .ok r => applyTagChain T cfg g (n + 1) (List.map (fun c => litLink c.fst c.snd p) rest) r
            | .err m => xerr m
            | .unsupported => xerr "filter outside the model" .unsupported).run σ = .ok r σ := by
        intro m hm
        rw [run_bind_ok hm]
        simp only [hap, hname, Bool.not_true, Bool.false_eq_true, if_false]
        exact hrest
      cases param with
      | none => exact hp _ rfl
      | some pv =>
        cases pv <;> simp only [Option.map_some] <;> apply hp <;>
          simp [paramVal, eval, EStateM.run, pure, EStateM.pure]
    | err m => rw [hap] at h; cases h
    | unsupported => rw [hap] at h; cases h

/-- **`{% filter f1|f2 %}body{% endfilter %}` is the chain applied to the rendered body.**  If the
    body renders (into its own buffer) to `out`, the tag writes the text of
    `f2(f1(out, a1), a2)` — the same composition `chain_order` gives for `{{ v|f1:a1|f2:a2 }}` —
    and nothing else. -/
theorem filter_tag_is_chain_on_rendered_body (p tp : TokPos) (chain : List (Bytes × Option Val))
    (hreg : ∀ c ∈ chain, cfg.regFilters.elem c.1 = true) (body : List Node) (fuel : Nat) (hf : fuel ≥ chain.length + 2)
    (σ σ1 : ES) (out : Bytes) (r : V)
    (hbody : (buffered (execNodes T cfg g fuel body)).run σ = .ok out σ1)
    (hseq : applySeq chain (mkV (.str out)) = some r) :
    (execNode T cfg g (fuel + 1) (.tagFilter (chain.map fun c => litLink c.1 c.2 p) body tp)).run σ =
      .ok () { σ1 with out := σ1.out ++ r.v.toS } := by
  unfold execNode
  simp only []
  rw [run_bind_ok hbody]
  rw [run_bind_ok (tag_chain_order T cfg g p chain hreg (mkV (.str out)) r σ1 fuel hf hseq)]
  rfl

/-- **what counts as a name** (regenerated from lexer.go): a name starts with an ASCII letter or
    `_` and goes on with letters, digits and `_`; exactly eight words are reserved (`in and or not
    true false as export`) — every other word, `none`, `_`, `_x`, `end`, … is an ordinary name that
    a loop variable, a macro parameter or a context key can bear -/
theorem gen_name_tables :
    Gen.lexTables.identChars = b!"abcdefghijklmnopqrstuvwxyzABCDEFGHIJKLMNOPQRSTUVWXYZ_" ∧
    Gen.lexTables.identDigitChars = b!"abcdefghijklmnopqrstuvwxyzABCDEFGHIJKLMNOPQRSTUVWXYZ_0123456789" ∧
    Gen.lexTables.keywords = [b!"in", b!"and", b!"or", b!"not", b!"true", b!"false", b!"as", b!"export"] := by decide

/-- **Unknown filters are compile errors**: a name that is not registered is
    refused wherever `parseFilter` is reached. -/
theorem unknown_filter_is_compile_error (fuel : Nat) (p : PS) (idTok : Tok) (rest : List Tok)
    (hts : p.ts = idTok :: rest) (hid : idTok.typ = .ident) (hreg : cfg.regFilters.elem idTok.val = false) :
    ∃ e, parseFilter cfg (fuel + 1) p = .error e ∧ e.kind = .parser := by
  obtain ⟨ts, all⟩ := p
  simp only at hts
  subst hts
  rw [parseFilter]
  simp only [PS.matchType, hid, beq_self_eq_true, if_true, hreg, Bool.not_false]
  exact ⟨_, rfl, by simp [PS.err]⟩

/-- **Unknown tags are compile errors.** -/
theorem unknown_tag_is_compile_error (fuel : Nat) (ds : DS) (nameTok : Tok) (rest : List Tok)
    (hts : ds.doc.ts = nameTok :: rest) (hid : nameTok.typ = .ident) (hreg : cfg.regTags.elem nameTok.val = false) :
    ∃ e, parseTag T cfg (fuel + 1) ds = .error e ∧ e.kind = .parser := by
  rw [parseTag]
  simp only [PS.matchType, hts, hid, beq_self_eq_true, if_true, hreg, Bool.not_false]
  exact ⟨_, rfl, by simp [PS.err]⟩

/-- In the `filter` tag an unregistered name is an execution error at the latest. -/
theorem unknown_filter_in_filter_tag (fuel : Nat) (name : Bytes) (rest : List (Bytes × Option Expr)) (v : V) (σ : ES)
    (hreg : cfg.regFilters.elem name = false) :
    ∃ e, (applyTagChain T cfg g (fuel + 1) ((name, none) :: rest) v).run σ = .error e σ ∧ e.kind = .exec := by
  refine ⟨{ kind := .exec, msg := "filter not found" }, ?_, rfl⟩
  have hn : ¬ name ∈ cfg.regFilters := by simpa using hreg
  simp [applyTagChain, EStateM.run, bind, EStateM.bind, pure, EStateM.pure, hn, xerr, throw, throwThe,
    MonadExceptOf.throw, EStateM.throw]

/-- **Registering a name twice is refused** and leaves the registry as it was;
    so is replacing a name that is not registered. -/
theorem register_twice_refused (names : List Bytes) (n : Bytes) (h : names.elem n = true) :
    regStep names (.register n) = (names, false) := by
  have : n ∈ names := by simpa using h
  simp [regStep, this]

theorem replace_missing_refused (names : List Bytes) (n : Bytes) (h : names.elem n = false) :
    regStep names (.replace n) = (names, false) := by
  have : ¬ n ∈ names := by simpa using h
  simp [regStep, this]

/-- the registrations in the code's init() functions do not collide (a
    colliding one would be silently dropped by RegisterFilter/RegisterTag) -/
theorem gen_registrations_distinct :
    (Gen.registeredFilters.map (·.1)).Nodup ∧ (Gen.registeredTags.map (·.1)).Nodup := by decide

/-! ### … everywhere filters can be written: inside a list literal

The items of `[a|f, b|g:x]` are filtered terms like any other.  (On the pinned tree the item's
chain was parsed and then dropped at evaluation — defect D49, fixed in /repo; the model follows the
fixed code, and the correspondence suites C07/C19 run list literals with chains on their items.) -/

/-- one step: the first item of a list literal is evaluated as the filtered term it is -/
theorem list_item_is_its_filtered_term (fuel : Nat) (e : Expr) (chain : List FCall) (p : TokPos) (es : List Expr) :
    evalArrayItems T cfg g (fuel + 1) (.filtered e chain p :: es) =
      (do let v ← eval T cfg g fuel (.filtered e chain p)
          let vs ← evalArrayItems T cfg g fuel es
          pure (v :: vs)) := by
  rw [evalArrayItems]

/-- a text literal with a chain of literal-parameter filters, as an item of a list literal -/
def litItem (p : TokPos) (it : Bytes × List (Bytes × Option Val)) : Expr :=
  .filtered (.str it.1 p) (it.2.map fun c => litCall c.1 c.2 p) p

/-- Spec: the items of a list literal, each the composition of its own chain -/
def applyItems : List (Bytes × List (Bytes × Option Val)) → Option (List V)
  | [] => some []
  | it :: rest =>
    match applySeq it.2 (mkV (.str it.1)), applyItems rest with
    | some r, some rs => some (r :: rs)
    | _, _ => none

/-- **Every item of a list literal carries its own chain**: for list literals of any length whose
    items are texts with chains of any length, the items of the resulting list are exactly the
    compositions `fn(… f1(text, a1) …, an)`, item by item, in order. -/
theorem list_literal_items_apply_their_chains (p : TokPos) (m : Nat) (items : List (Bytes × List (Bytes × Option Val))) :
    ∀ (rs : List V) (σ : ES) (fuel : Nat), fuel ≥ items.length + m + 4 → (∀ it ∈ items, it.2.length ≤ m) →
      applyItems items = some rs →
      (evalArrayItems T cfg g fuel (items.map (litItem p))).run σ = .ok rs σ := by
  induction items with
  | nil =>
    intro rs σ fuel hf _ h
    simp only [applyItems, Option.some.injEq] at h
    subst h
    obtain ⟨n, rfl⟩ : ∃ n, fuel = n + 1 := ⟨fuel - 1, by simp at hf; omega⟩
    simp [evalArrayItems, EStateM.run, pure, EStateM.pure]
  | cons it rest ih =>
    intro rs σ fuel hf hm h
    simp only [applyItems] at h
    cases h1 : applySeq it.2 (mkV (.str it.1)) with
    | none => rw [h1] at h; cases h
    | some r =>
      cases h2 : applyItems rest with
      | none => rw [h1, h2] at h; cases h
      | some rs' =>
        rw [h1, h2] at h
        simp only [Option.some.injEq] at h
        subst h
        obtain ⟨n, rfl⟩ : ∃ n, fuel = n + 3 := ⟨fuel - 3, by simp at hf; omega⟩
        have hlen : it.2.length ≤ m := hm it List.mem_cons_self
        simp only [List.map_cons, litItem]
        rw [list_item_is_its_filtered_term]
        have hitem : (eval T cfg g (n + 2) (.filtered (.str it.1 p) (it.2.map fun c => litCall c.1 c.2 p) p)).run σ = .ok r σ := by
          rw [eval]
          have h0 : (eval T cfg g (n + 1) (.str it.1 p)).run σ = .ok (mkV (.str it.1)) σ := by
            simp [eval, EStateM.run, pure, EStateM.pure]
          rw [run_bind_ok h0]
          exact chain_order T cfg g p it.2 _ r σ (n + 1) (by simp at hf; omega) h1
        rw [run_bind_ok hitem]
        have hr := ih rs' σ (n + 2) (by simp at hf ⊢; omega) (fun x hx => hm x (List.mem_cons_of_mem _ hx)) h2
        rw [run_bind_ok hr]
        rfl

/-- non-vacuity: `["a b"|upper|cut:" ", "x"]` -/
example : applyItems [(b!"a b", [(b!"upper", none), (b!"cut", some (.str b!" "))]), (b!"x", [])] =
    some [mkV (.str b!"AB"), mkV (.str b!"x")] := by
  simp [applyItems, applySeq, applyFilter, paramVal, mkStr, mkV, isAscii, Val.toS, Val.toStr, Val.isNil, Val.rkind, Val.kind, Val.resolved,
    replaceAll_single, asciiUpper]

/-! ### non-vacuity: "a b"|upper|cut:" " -/
example : applySeq [(b!"upper", none), (b!"cut", some (.str b!" "))] (mkV (.str b!"a b")) = some (mkV (.str b!"AB")) := by
  simp [applySeq, applyFilter, paramVal, mkStr, mkV, isAscii, Val.toS, Val.toStr, Val.isNil, Val.rkind, Val.kind, Val.resolved,
    replaceAll_single, asciiUpper]

end Pongo.C19

-- GENERATED placeholder
namespace Pongo.Gen
end Pongo.Gen

/-
  Autoescape as an invariant of the whole interpreter (C02), part 3b: filters.
  No modelled filter marks its result safe (it can only hand its input or its parameter through),
  and the value it returns is made of parts of its input / parameter or of fresh text.
-/
import Pongo.Lemmas.CleanVal

namespace Pongo

section
variable {L : Bytes → Prop}

theorem valOK_resolved {v : Val} (h : ValOK L v) : ValOK L v.resolved := by
  unfold Val.resolved
  split
  · cases h with | ptr _ h => exact h
  · exact ValOK.nil
  · cases h with | stringer _ _ h => cases h with | ptr _ h => exact h
  · exact h

theorem valOK_reflected {v : Val} (h : ValOK L v) : ValOK L v.reflected := by
  unfold Val.reflected
  have hr := valOK_resolved h
  split
  · rename_i i t heq
    rw [heq] at hr
    cases hr with | stringer _ _ h => exact h
  · exact hr

theorem valOK_vIndex {v : Val} (h : ValOK L v) (i : Nat) : ValOK L (vIndex v i) := by
  unfold vIndex
  have hr := valOK_reflected h
  split
  · rename_i ty xs heq; rw [heq] at hr; cases hr with | list _ _ hx => exact valOK_getD hx i
  · rename_i ty xs heq; rw [heq] at hr; cases hr with | arr _ _ hx => exact valOK_getD hx i
  · split <;> exact ValOK.str _
  · exact ValOK.list _ _ (by intro x hx; cases hx)

theorem valOK_vSlice {v : Val} (h : ValOK L v) (i j : Nat) : ValOK L (vSlice v i j) := by
  unfold vSlice
  have hr := valOK_reflected h
  split
  · rename_i ty xs heq; rw [heq] at hr
    cases hr with | list _ _ hx => exact ValOK.list _ _ (fun x hx' => hx x (List.mem_of_mem_drop (List.mem_of_mem_take hx')))
  · rename_i ty xs heq; rw [heq] at hr
    cases hr with | arr _ _ hx => exact ValOK.list _ _ (fun x hx' => hx x (List.mem_of_mem_drop (List.mem_of_mem_take hx')))
  · exact ValOK.str _
  · exact ValOK.list _ _ (by intro x hx; cases hx)

theorem valOK_strList (ty : Bytes) (l : List Bytes) : ValOK L (.list ty (l.map Val.str)) :=
  ValOK.list _ _ (by intro x hx; simp only [List.mem_map] at hx; obtain ⟨s, _, rfl⟩ := hx; exact ValOK.str s)

theorem valOK_strList' {α} (ty : Bytes) (l : List α) (f : α → Bytes) : ValOK L (.list ty (l.map fun c => Val.str (f c))) :=
  ValOK.list _ _ (by intro x hx; simp only [List.mem_map] at hx; obtain ⟨s, _, rfl⟩ := hx; exact ValOK.str _)

/-- what a filter result must satisfy, given a well-formed input and parameter -/
def ResOK (L : Bytes → Prop) (i p : V) (res : FRes) : Prop :=
  ∀ r, res = .ok r → ValOK L r.v ∧ (r.safe = true → r = i ∨ r = p)

theorem ro_ite {i p : V} {c : Prop} [Decidable c] {a b : FRes} (ha : ResOK L i p a) (hb : ResOK L i p b) :
    ResOK L i p (if c then a else b) := by split <;> assumption
theorem ro_mkStr {i p : V} (s : Bytes) : ResOK L i p (mkStr s) := by
  intro r h; simp only [mkStr, FRes.ok.injEq] at h; subst h; exact ⟨ValOK.str _, by simp⟩
theorem ro_mkInt {i p : V} (s : Int64) : ResOK L i p (mkInt s) := by
  intro r h; simp only [mkInt, FRes.ok.injEq] at h; subst h; exact ⟨ValOK.int _, by simp⟩
theorem ro_mkBool {i p : V} (s : Bool) : ResOK L i p (mkBool s) := by
  intro r h; simp only [mkBool, FRes.ok.injEq] at h; subst h; exact ⟨ValOK.bool _, by simp⟩
theorem ro_false {i p : V} {v : Val} (hv : ValOK L v) : ResOK L i p (.ok ⟨v, false⟩) := by
  intro r h; simp only [FRes.ok.injEq] at h; subst h; exact ⟨hv, by simp⟩
theorem ro_in {i p : V} (hi : ValOK L i.v) : ResOK L i p (.ok i) := by
  intro r h; simp only [FRes.ok.injEq] at h; subst h; exact ⟨hi, fun _ => Or.inl rfl⟩
theorem ro_param {i p : V} (hp : ValOK L p.v) : ResOK L i p (.ok p) := by
  intro r h; simp only [FRes.ok.injEq] at h; subst h; exact ⟨hp, fun _ => Or.inr rfl⟩
theorem ro_err {i p : V} (m : String) : ResOK L i p (.err m) := by intro r h; cases h
theorem ro_unsup {i p : V} : ResOK L i p .unsupported := by intro r h; cases h

/-- **every modelled filter, every input and parameter** -/
theorem applyFilter_resOK (name : Bytes) (i p : V) (hi : ValOK L i.v) (hp : ValOK L p.v) :
    ResOK L i p (applyFilter name i p) := by
  unfold applyFilter
  simp only []
  repeat' (first
    | apply ro_ite
    | exact ro_mkStr _ | exact ro_mkInt _ | exact ro_mkBool _
    | exact ro_in hi | exact ro_param hp | exact ro_err _ | exact ro_unsup
    | exact ro_false (ValOK.float _) | exact ro_false (ValOK.uint _)
    | exact ro_false (valOK_vIndex hi _) | exact ro_false (valOK_vSlice hi _ _)
    | exact ro_false (valOK_strList _ _)
    | exact ro_false (valOK_strList' _ _ _)
    | split)

theorem applyFilter_vok {name : Bytes} {i p r : V} (hi : VOK L i) (hp : VOK L p) (h : applyFilter name i p = .ok r) : VOK L r := by
  obtain ⟨hv, hs⟩ := applyFilter_resOK name i p hi.1 hp.1 r h
  refine ⟨hv, fun hsafe => ?_⟩
  rcases hs hsafe with rfl | rfl
  · exact hi.2 hsafe
  · exact hp.2 hsafe

end

end Pongo

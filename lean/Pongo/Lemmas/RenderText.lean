/-
  Literal text end to end: the lexer's text theorem (C06) carried through the parser and the
  interpreter of the model.
-/
import Pongo.Model.Exec
import Pongo.Lemmas.Lex

namespace Pongo

theorem htmlOut_plain (tb lb : Bool) (s : Bytes) : htmlOut tb lb s false false false false = s := by
  simp [htmlOut]

/-- a text node without neighbours writes its text, whatever the options -/
theorem exec_text_node (T : LexTables) (cfg : SetCfg) (g : Env) (fuel : Nat) (s : Bytes) (o : Nat) (σ : ES) (fr : Frame) (rest : List Frame)
    (hf : σ.frames = fr :: rest) :
    (execNode T cfg g (fuel + 1) (.html s false false false false o)).run σ = .ok () { σ with out := σ.out ++ s } := by
  rw [execNode]
  simp [EStateM.run, bind, EStateM.bind, cur, get, getThe, MonadStateOf.get, EStateM.get, hf, pure, EStateM.pure,
    write, modify, modifyGet, MonadStateOf.modifyGet, EStateM.modifyGet, htmlOut_plain]

/-- a document that is one text token parses to one text node -/
theorem parse_text_token (T : LexTables) (cfg : SetCfg) (fuel : Nat) (t : Tok) (ht : t.typ = .html) (ds : DS)
    (hd : ds.doc.ts = [t]) :
    parseDocument T cfg (fuel + 3) [] none ds =
      .ok ([.html t.val false false false false ds.self], { ds with doc := ds.doc.adv }) := by
  rw [parseDocument]
  simp only [hd]
  rw [parseDocElement]
  simp only [hd, ht]
  simp only [bind, Except.bind, pure, Except.pure]
  rw [parseDocument]
  simp only [PS.adv, hd, List.tail_cons]
  rfl

/-- the compiled form of a source that lexes to one text token -/
def textTpl (cfg : SetCfg) (name : Bytes) (isString : Bool) (val : Bytes) : Tpl :=
  { name := name, isString := isString, nodes := [.html val false false false false 0], blocks := [],
    parent := none, exported := [], trimBlocks := cfg.trimBlocks, lstripBlocks := cfg.lstripBlocks }

theorem compile_text (T : LexTables) (cfg : SetCfg) (fuel : Nat) (name src : Bytes) (isString : Bool) (t : Tok)
    (ht : t.typ = .html) (hl : lex T src = .ok [t]) :
    compileTpl T cfg (fuel + 4) {} name isString src = .ok (0, { tpls := #[textTpl cfg name isString t.val] }) := by
  rw [compileTpl]
  simp only [hl]
  simp only [bind, Except.bind]
  rw [parse_text_token T cfg fuel t ht _ rfl]
  simp [textTpl, pure, Except.pure, PS.ofList, PS.adv]

/-- executing that template writes the text -/
theorem exec_textTpl (T : LexTables) (cfg : SetCfg) (fuel : Nat) (name : Bytes) (isString : Bool) (val : Bytes) (σ : ES)
    (hσ : σ.cs.tpls = #[textTpl cfg name isString val]) :
    ∃ σ', (executeTplUnbuffered T cfg [] (fuel + 3) 0 []).run σ = .ok () σ' ∧ σ'.out = σ.out ++ val := by
  rw [executeTplUnbuffered]
  simp only [EStateM.run, bind, EStateM.bind, get, getThe, MonadStateOf.get, EStateM.get, hσ]
  simp [textTpl, Env.update, chainOf, withFrame, tryCatch, tryCatchThe, MonadExceptOf.tryCatch, EStateM.tryCatch,
    bind, EStateM.bind, get, getThe, MonadStateOf.get, EStateM.get, modify, modifyGet, MonadStateOf.modifyGet, EStateM.modifyGet,
    pure, EStateM.pure, execNodes, execNode, cur, write, htmlOut_plain, hσ]

end Pongo

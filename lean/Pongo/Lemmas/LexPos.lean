/-
  Positions computed by the lexer are exact, for every input: helper lemmas.
  line = 1 + newlines before the offset, column = 1 + bytes since the last newline.
-/
import Pongo.Lemmas.Lex

namespace Pongo

/-- number of bytes after the last newline of `s` -/
def sinceNewline (s : Bytes) : Nat := (s.reverse.takeWhile (· ≠ 0x0a)).length

/-- closed-form position of the byte that follows the prefix `pre` -/
def lineCol (pre : Bytes) : Nat × Nat := (1 + pre.count 0x0a, 1 + sinceNewline pre)

/-- the lexer's position record for "just behind `pre`" -/
def posOf (pre : Bytes) : Pos := ⟨(lineCol pre).1, (lineCol pre).2, pre.length⟩

theorem sinceNewline_snoc (s : Bytes) (c : UInt8) :
    sinceNewline (s ++ [c]) = if c = 0x0a then 0 else sinceNewline s + 1 := by
  unfold sinceNewline
  simp only [List.reverse_append, List.reverse_cons, List.reverse_nil, List.nil_append, List.cons_append]
  by_cases h : c = 0x0a
  · simp [h, List.takeWhile]
  · simp [h, List.takeWhile]

theorem posOf_nil : posOf [] = Pos.init := by
  simp [posOf, lineCol, sinceNewline, Pos.init]

theorem posOf_snoc (pre : Bytes) (c : UInt8) : posOf (pre ++ [c]) = (posOf pre).step c := by
  simp only [posOf, lineCol, sinceNewline_snoc, List.count_append, List.length_append, List.length_cons, List.length_nil, Pos.step]
  by_cases h : c = 0x0a
  · subst h; simp; omega
  · have : List.count 0x0a [c] = 0 := by simp [h]
    simp [h, this]; omega

/-- advancing over bytes that hold no newline -/
theorem posOf_append (pre mid : Bytes) (h : ∀ c ∈ mid, c ≠ 0x0a) : posOf (pre ++ mid) = (posOf pre).adv mid.length := by
  induction mid using rev_ind with
  | h0 => simp [Pos.adv]
  | h1 s c ih =>
    have hs : ∀ c ∈ s, c ≠ 0x0a := fun c hc => h c (by simp [hc])
    have hc : c ≠ 0x0a := h c (by simp)
    rw [← List.append_assoc, posOf_snoc, ih hs]
    simp [Pos.step, Pos.adv, hc]; omega

/-- the kinds of token whose value is their source text as it stands: literal text, identifiers,
    keywords and numbers (a string's value is unescaped, a symbol's may have lost its `-`) -/
def TokTyp.verbatim : TokTyp → Bool
  | .html | .ident | .keyword | .num => true
  | _ => false

/-- a token's recorded line and column are those of its offset in `s`; the value of a text token, an
    identifier, a keyword or a number is the source text found there, byte for byte -/
def TokOK (s : Bytes) (t : Tok) : Prop :=
  t.off ≤ s.length ∧ (t.line, t.col) = lineCol (s.take t.off) ∧ (t.typ.verbatim = true → t.val <+: s.drop t.off)

theorem tokOK_at {s pre rest : Bytes} (h : s = pre ++ rest) (t : Tok)
    (hl : t.line = (posOf pre).line) (hc : t.col = (posOf pre).col) (ho : t.off = (posOf pre).off)
    (hv : t.typ.verbatim = true → t.val <+: rest) : TokOK s t := by
  subst h
  simp only [posOf] at hl hc ho
  refine ⟨by simp [ho], ?_, ?_⟩
  · rw [ho, List.take_left']
    · simp [hl, hc]
    · rfl
  · intro ht
    rw [ho, List.drop_left']
    · exact hv ht
    · rfl

/-! ### strings -/

theorem scanStr_shape (eof : Option UInt8) (q : UInt8) :
    ∀ (n : Nat) (t acc raw rest : Bytes), t.length ≤ n → scanStr eof q t acc = .ok raw rest →
      ∃ body, t = body ++ q :: rest ∧ raw = acc.reverse ++ body ∧ ∀ c ∈ body, c ≠ 0x0a := by
  intro n
  induction n with
  | zero =>
    intro t acc raw rest hl h
    have : t = [] := List.eq_nil_of_length_eq_zero (by omega)
    subst this
    simp [scanStr] at h
  | succ n ih =>
    intro t acc raw rest hl h
    cases t with
    | nil => simp [scanStr] at h
    | cons c t' =>
      rw [scanStr.eq_def] at h
      simp only at h
      by_cases hq : c = q
      · simp only [hq, if_true] at h
        cases h
        exact ⟨[], by simp [hq], by simp, by simp⟩
      · simp only [hq, if_false] at h
        by_cases hb : c = 0x5c
        · simp only [hb, if_true] at h
          cases t' with
          | nil => simp at h
          | cons d t'' =>
            simp only at h
            by_cases hd : d = 0x22 ∨ d = 0x5c
            · simp only [hd, if_true] at h
              obtain ⟨body, e1, e2, e3⟩ := ih t'' (d :: c :: acc) raw rest (by simp at hl ⊢; omega) (by simpa [hb] using h)
              refine ⟨c :: d :: body, by simp [e1], by simp [e2], ?_⟩
              intro x hx
              simp only [List.mem_cons] at hx
              rcases hx with rfl | rfl | hx
              · rw [hb]; decide
              · rcases hd with h1 | h1 <;> rw [h1] <;> decide
              · exact e3 x hx
            · simp only [hd, if_false] at h
              cases h
        · simp only [hb, if_false] at h
          by_cases he : some c = eof
          · simp [he] at h
          · simp only [he, if_false] at h
            by_cases hn : c = 0x0a
            · simp [hn] at h
            · simp only [hn, if_false] at h
              obtain ⟨body, e1, e2, e3⟩ := ih t' (c :: acc) raw rest (by simp at hl ⊢; omega) h
              refine ⟨c :: body, by simp [e1], by simp [e2], ?_⟩
              intro x hx
              simp only [List.mem_cons] at hx
              rcases hx with rfl | hx
              · exact hn
              · exact e3 x hx

/-! ### inside a tag -/

/-- no table of characters that can be consumed inside a tag holds a newline -/
def TagTablesOK (T : LexTables) : Bool :=
  T.symbols.all (fun s => !s.elem 0x0a) && !T.identDigitChars.elem 0x0a && !T.identChars.elem 0x0a &&
  !T.digits.elem 0x0a && !T.quotes.elem 0x0a

theorem takeWhile_mem_ne {set : Bytes} (h : set.elem 0x0a = false) (l : Bytes) :
    ∀ c ∈ l.takeWhile (mem set), c ≠ 0x0a := by
  intro c hc he
  have := List.all_takeWhile (p := mem set) (l := l)
  have hm := List.all_eq_true.1 this c hc
  subst he
  simp [mem] at hm
  simp_all

/-- nothing can be consumed at `cur`: it is empty or starts with a byte that is no space, no
    identifier or digit character, no quote and not the start of any symbol -/
def Stuck (T : LexTables) : Bytes → Prop
  | [] => True
  | c :: t => mem T.space c = false ∧ mem T.identChars c = false ∧ mem T.digits c = false ∧ mem T.quotes c = false ∧
      firstSym T.symbols (c :: t) = none

/-- what a successful or failed run of `stateCode` guarantees: exact positions, the rest is a suffix
    of the input, and something was consumed unless nothing could be (`stuck`) -/
def CodeOK (s pre cur : Bytes) (stuck : Prop) : TokzRes → Prop
  | .ok toks rest pos => (∀ t ∈ toks, TokOK s t) ∧ ∃ used, cur = used ++ rest ∧ pos = posOf (pre ++ used) ∧ (used = [] → stuck)
  | .err e => ∃ pre', pre' <+: s ∧ (e.line, e.col) = lineCol pre' ∧ e.off = pre'.length

theorem codeOK_continue {s pre used rest' cur : Bytes} {stuck' stuck : Prop} {r : TokzRes} (hcur : cur = used ++ rest')
    (hne : used ≠ []) (h : CodeOK s (pre ++ used) rest' stuck' r) : CodeOK s pre cur stuck r := by
  cases r with
  | ok toks rest pos =>
    obtain ⟨h1, used', e1, e2, _⟩ := h
    refine ⟨h1, used ++ used', by rw [hcur, e1, List.append_assoc], by rw [e2, List.append_assoc], ?_⟩
    intro he
    exact absurd (List.append_eq_nil_iff.mp he).1 hne
  | err e => exact h

theorem prefix_ok {s pre cur : Bytes} (hs : s = pre ++ cur) : ∃ pre', pre' <+: s ∧ ((posOf pre).line, (posOf pre).col) = lineCol pre' ∧ (posOf pre).off = pre'.length :=
  ⟨pre, by rw [hs]; exact List.prefix_append _ _, rfl, rfl⟩

theorem tok_here {s pre cur : Bytes} (hs : s = pre ++ cur) (typ : TokTyp) (val : Bytes) (tr : Bool)
    (hv : typ.verbatim = true → val <+: cur) :
    TokOK s ⟨typ, val, (posOf pre).line, (posOf pre).col, tr, (posOf pre).off⟩ :=
  tokOK_at hs _ rfl rfl rfl hv

theorem codeOK_ok {s pre cur : Bytes} {stuck : Prop} {toks : List Tok} {rest : Bytes} {pos : Pos} (h1 : ∀ t ∈ toks, TokOK s t)
    (used : Bytes) (h2 : cur = used ++ rest) (h3 : pos = posOf (pre ++ used)) (h4 : used = [] → stuck) :
    CodeOK s pre cur stuck (.ok toks rest pos) :=
  ⟨h1, used, h2, h3, h4⟩

theorem codeOK_err {s pre cur pre0 cur0 : Bytes} {stuck : Prop} (hs : s = pre0 ++ cur0) (k : LexErrKind) :
    CodeOK s pre cur stuck (.err ⟨k, (posOf pre0).line, (posOf pre0).col, (posOf pre0).off⟩) := prefix_ok hs

attribute [local irreducible] CodeOK in
theorem stateCode_pos (T : LexTables) (hT : TagTablesOK T = true) (s : Bytes) :
    ∀ (n : Nat) (cur pre : Bytes) (acc : List Tok), cur.length ≤ n → s = pre ++ cur → (∀ t ∈ acc, TokOK s t) →
      CodeOK s pre cur (Stuck T cur) (stateCode T cur (posOf pre) acc) := by
  have hT' := hT
  simp only [TagTablesOK, Bool.and_eq_true, Bool.not_eq_true', List.all_eq_true] at hT'
  obtain ⟨⟨⟨⟨hsym, hidd⟩, hid⟩, hdig⟩, hquo⟩ := hT'
  intro n
  induction n with
  | zero =>
    intro cur pre acc hl hs hacc
    have : cur = [] := List.eq_nil_of_length_eq_zero (by omega)
    subst this
    rw [stateCode.eq_def]
    exact codeOK_ok hacc [] (by simp) (by simp) (fun _ => trivial)
  | succ n ih =>
    intro cur pre acc hl hs hacc
    -- one step: consume `used` (no newline), push `acc'`, continue on `rest'`
    cases cur with
    | nil =>
      rw [stateCode.eq_def]
      exact codeOK_ok hacc [] (by simp) (by simp) (fun _ => trivial)
    | cons c t =>
      have go : ∀ (used rest' : Bytes) (acc' : List Tok), c :: t = used ++ rest' → used ≠ [] → (∀ x ∈ used, x ≠ 0x0a) →
          (∀ t ∈ acc', TokOK s t) → CodeOK s pre (c :: t) (Stuck T (c :: t)) (stateCode T rest' ((posOf pre).adv used.length) acc') := by
        intro used rest' acc' hcur hne hnl hacc'
        rw [← posOf_append pre used hnl]
        apply codeOK_continue hcur hne
        apply ih
        · have : (c :: t).length = used.length + rest'.length := by rw [hcur, List.length_append]
          have : 0 < used.length := List.length_pos_iff.mpr hne
          simp only [List.length_cons] at *; omega
        · rw [hs, hcur, List.append_assoc]
        · exact hacc'
      have tokc := fun (typ : TokTyp) (val : Bytes) (tr : Bool) (hv : typ.verbatim = true → val <+: c :: t) => tok_here (cur := c :: t) hs typ val tr hv
      rw [stateCode.eq_def]
      simp only []
      by_cases hsp : mem T.space c = true
      · rw [if_pos hsp]
        by_cases hnl : c = 0x0a
        · rw [if_pos hnl]
          exact codeOK_err hs _
        · rw [if_neg hnl]
          exact go [c] t acc rfl (by simp) (by simp [hnl]) hacc
      · rw [if_neg hsp]
        by_cases hidc : mem T.identChars c = true
        · rw [if_pos hidc]
          have hc : c ≠ 0x0a := by
            intro he; subst he; simp [mem] at hidc; simp_all
          refine go (c :: (t.takeWhile (mem T.identChars) ++ (t.dropWhile (mem T.identChars)).takeWhile (mem T.identDigitChars))) _ _ ?_ (by simp) ?_ ?_
          · simp only [List.cons_append, List.append_assoc, List.cons.injEq, true_and]
            rw [List.takeWhile_append_dropWhile, List.takeWhile_append_dropWhile]
          · intro x hx
            simp only [List.mem_cons, List.mem_append] at hx
            rcases hx with rfl | hx | hx
            · exact hc
            · exact takeWhile_mem_ne hid _ x hx
            · exact takeWhile_mem_ne hidd _ x hx
          · intro t' ht'
            rcases List.mem_cons.1 ht' with rfl | h
            · exact tokc _ _ _ (fun _ => ⟨_, by
              simp only [List.cons_append, List.append_assoc, List.cons.injEq, true_and]
              rw [List.takeWhile_append_dropWhile, List.takeWhile_append_dropWhile]⟩)
            · exact hacc _ h
        · rw [if_neg hidc]
          by_cases hdg : mem T.digits c = true
          · rw [if_pos hdg]
            have hc : c ≠ 0x0a := by
              intro he; subst he; simp [mem] at hdg; simp_all
            have hsplit : t = t.takeWhile (mem T.digits) ++ t.dropWhile (mem T.digits) := (List.takeWhile_append_dropWhile).symm
            split
            · rename_i d t0' h0
              by_cases hdd : mem T.identDigitChars d = true
              · rw [if_pos hdd]
                have hd : d ≠ 0x0a := by
                  intro he; subst he; simp [mem] at hdd; simp_all
                refine go (c :: (t.takeWhile (mem T.digits) ++ d :: (t0'.takeWhile (mem T.identChars) ++ (t0'.dropWhile (mem T.identChars)).takeWhile (mem T.identDigitChars)))) _ _ ?_ (by simp) ?_ ?_
                · simp only [List.cons_append, List.append_assoc, List.cons.injEq, true_and]
                  rw [List.takeWhile_append_dropWhile, List.takeWhile_append_dropWhile, ← h0, List.takeWhile_append_dropWhile]
                · intro x hx
                  simp only [List.mem_cons, List.mem_append] at hx
                  rcases hx with rfl | hx | rfl | hx | hx
                  · exact hc
                  · exact takeWhile_mem_ne hdig _ x hx
                  · exact hd
                  · exact takeWhile_mem_ne hid _ x hx
                  · exact takeWhile_mem_ne hidd _ x hx
                · intro t' ht'
                  rcases List.mem_cons.1 ht' with rfl | h
                  · exact tokc _ _ _ (fun _ => ⟨_, by
                    simp only [List.cons_append, List.append_assoc, List.cons.injEq, true_and]
                    rw [List.takeWhile_append_dropWhile, List.takeWhile_append_dropWhile, ← h0, List.takeWhile_append_dropWhile]⟩)
                  · exact hacc _ h
              · rw [if_neg hdd]
                have := go (c :: t.takeWhile (mem T.digits)) (d :: t0') (⟨.num, c :: t.takeWhile (mem T.digits), (posOf pre).line, (posOf pre).col, false, (posOf pre).off⟩ :: acc) ?_ (by simp) ?_ ?_
                · simpa using this
                · simp only [List.cons_append, List.cons.injEq, true_and]
                  rw [← h0, List.takeWhile_append_dropWhile]
                · intro x hx
                  simp only [List.mem_cons] at hx
                  rcases hx with rfl | hx
                  · exact hc
                  · exact takeWhile_mem_ne hdig _ x hx
                · intro t' ht'
                  rcases List.mem_cons.1 ht' with rfl | h
                  · exact tokc _ _ _ (fun _ => ⟨d :: t0', by
                    simp only [List.cons_append, List.cons.injEq, true_and]
                    rw [← h0, List.takeWhile_append_dropWhile]⟩)
                  · exact hacc _ h
            · rename_i h0
              refine codeOK_ok ?_ (c :: t.takeWhile (mem T.digits)) ?_ ?_ (by simp)
              · intro t' ht'
                rcases List.mem_cons.1 ht' with rfl | h
                · exact tokc _ _ _ (fun _ => ⟨[], by
                  simp only [List.append_nil, List.cons.injEq, true_and]
                  conv => rhs; rw [hsplit, h0]
                  simp⟩)
                · exact hacc _ h
              · simp only [List.append_nil, List.cons.injEq, true_and]
                conv => lhs; rw [hsplit, h0]
                simp
              · rw [posOf_append pre _ (by
                  intro x hx
                  simp only [List.mem_cons] at hx
                  rcases hx with rfl | hx
                  · exact hc
                  · exact takeWhile_mem_ne hdig _ x hx)]
                simp
          · rw [if_neg hdg]
            by_cases hqu : mem T.quotes c = true
            · rw [if_pos hqu]
              have hc : c ≠ 0x0a := by
                intro he; subst he; simp [mem] at hqu; simp_all
              split
              · rename_i raw rest hsc
                obtain ⟨body, e1, e2, e3⟩ := scanStr_shape T.eofByte c t.length t [] raw rest (Nat.le_refl _) hsc
                simp only [List.reverse_nil, List.nil_append] at e2
                subst e2
                have := go (c :: raw ++ [c]) rest (⟨.str, unescapeStr raw, (posOf pre).line, (posOf pre).col, false, (posOf pre).off⟩ :: acc) ?_ (by simp) ?_ ?_
                · simpa [Nat.add_assoc] using this
                · simp [e1]
                · intro x hx
                  simp only [List.cons_append, List.mem_cons, List.mem_append, List.not_mem_nil, or_false] at hx
                  rcases hx with rfl | hx | rfl
                  · exact hc
                  · exact e3 x hx
                  · exact hc
                · intro t' ht'
                  rcases List.mem_cons.1 ht' with rfl | h
                  · exact tokc _ _ _ (fun h => by simp [TokTyp.verbatim] at h)
                  · exact hacc _ h
              · exact codeOK_err hs _
            · rw [if_neg hqu]
              split
              · rename_i sym hfs
                obtain ⟨hne, hpre⟩ := firstSym_some hfs
                have hmem : sym ∈ T.symbols := List.mem_of_find?_eq_some hfs
                have hsnl : ∀ x ∈ sym, x ≠ 0x0a := by
                  intro x hx he
                  subst he
                  have := hsym sym hmem
                  simp at this
                  exact this hx
                have hpf : c :: t = sym ++ (c :: t).drop sym.length := by
                  obtain ⟨r, hr⟩ := List.isPrefixOf_iff_prefix.mp hpre
                  rw [← hr]; simp
                have htok : ∀ t' ∈ mkSym sym (posOf pre) :: acc, TokOK s t' := by
                  intro t' ht'
                  rcases List.mem_cons.1 ht' with rfl | h
                  · unfold mkSym; split <;> exact tokc _ _ _ (fun h => by simp [TokTyp.verbatim] at h)
                  · exact hacc _ h
                by_cases hend : List.elem sym T.enders = true
                · rw [if_pos hend]
                  exact codeOK_ok htok sym hpf (posOf_append pre sym hsnl).symm (fun h => absurd h hne)
                · rw [if_neg hend]
                  exact go sym _ _ hpf hne hsnl htok
              · rename_i hfs
                exact codeOK_ok hacc [] (by simp) (by simp) (fun _ => ⟨by simpa using hsp, by simpa using hidc, by simpa using hdg, by simpa using hqu, hfs⟩)

theorem scanComment_shape (eof : Option UInt8) (close : Bytes) :
    ∀ (n : Nat) (t : Bytes) (k : Nat) (rest2 : Bytes) (m : Nat), t.length ≤ n → scanComment eof close t k = .ok rest2 m →
      ∃ body, t = body ++ close ++ rest2 ∧ m = k + body.length + close.length ∧ ∀ c ∈ body, c ≠ 0x0a := by
  intro n
  induction n with
  | zero =>
    intro t k rest2 m hl h
    have : t = [] := List.eq_nil_of_length_eq_zero (by omega)
    subst this
    simp [scanComment] at h
  | succ n ih =>
    intro t k rest2 m hl h
    cases t with
    | nil => simp [scanComment] at h
    | cons c t' =>
      rw [scanComment.eq_def] at h
      simp only at h
      by_cases he : some c = eof
      · rw [if_pos he] at h; cases h
      · rw [if_neg he] at h
        by_cases hn : c = 0x0a
        · rw [if_pos hn] at h; cases h
        · rw [if_neg hn] at h
          by_cases hp : close.isPrefixOf (c :: t') = true
          · rw [if_pos hp] at h
            cases h
            obtain ⟨r, hr⟩ := List.isPrefixOf_iff_prefix.mp hp
            refine ⟨[], ?_, by simp, by simp⟩
            rw [← hr]; simp
          · rw [if_neg hp] at h
            obtain ⟨body, e1, e2, e3⟩ := ih t' (k + 1) rest2 m (by simp at hl; omega) h
            refine ⟨c :: body, by simp [e1], by simp [e2]; omega, ?_⟩
            intro x hx
            rcases List.mem_cons.1 hx with rfl | hx
            · exact hn
            · exact e3 x hx

/-- the markers skipped by the text loop have the widths the code adds and hold no newline -/
def MarkersOK (T : LexTables) : Bool :=
  VerbTablesOK T && !T.verbStart.elem 0x0a && !T.verbEnd.elem 0x0a && !T.commentOpen.elem 0x0a && !T.commentClose.elem 0x0a &&
  -- progress: the comment opener is not empty, and every tag opener starts with a symbol
  T.commentOpen != [] && T.openers.all (fun o => T.symbols.any (fun sym => sym != [] && sym.isPrefixOf o))

/-- the bookkeeping of `run` is exact: `start` is just behind `pre`, `pos` just behind the pending text -/
def RunInv (s rest : Bytes) (st : RunSt) : Prop :=
  ∃ pre mid, s = pre ++ mid ++ rest ∧ st.start = posOf pre ∧ st.pos = posOf (pre ++ mid) ∧ st.pend = mid.reverse ∧
    ∀ t ∈ st.toks, TokOK s t

def LexOK (s : Bytes) : LexRes → Prop
  | .ok toks => ∀ t ∈ toks, TokOK s t
  | .err e => ∃ pre', pre' <+: s ∧ (e.line, e.col) = lineCol pre' ∧ e.off = pre'.length
  | .hang => False   -- the Go loop would spin without consuming input

/-- after `flush` nothing is pending and the pending text has become an exact token -/
theorem flush_inv {s rest : Bytes} {st : RunSt} (h : RunInv s rest st) :
    ∃ pre, s = pre ++ rest ∧ st.flush.start = posOf pre ∧ st.flush.pos = posOf pre ∧ st.flush.pend = [] ∧
      (∀ t ∈ st.flush.toks, TokOK s t) ∧ st.flush.inVerb = st.inVerb := by
  obtain ⟨pre, mid, hs, h1, h2, h3, h4⟩ := h
  refine ⟨pre ++ mid, hs, ?_⟩
  unfold RunSt.flush
  by_cases hp : st.pend = []
  · rw [if_pos hp]
    have : mid = [] := by
      rw [hp] at h3
      simpa using congrArg List.reverse h3.symm
    subst this
    simp_all
  · rw [if_neg hp]
    refine ⟨h2, h2, rfl, ?_, rfl⟩
    intro t ht
    rcases List.mem_cons.1 ht with rfl | ht
    · exact tokOK_at (pre := pre) (rest := mid ++ rest) (by rw [hs, List.append_assoc]) _ (by simp [h1]) (by simp [h1]) (by simp [h1])
        (fun _ => by simp [h3])
    · exact h4 t ht

theorem skip_inv {s pre used rest' : Bytes} {st : RunSt} (hs : s = pre ++ (used ++ rest')) (hst : st.start = posOf pre)
    (hpos : st.pos = posOf pre) (htoks : ∀ t ∈ st.toks, TokOK s t) (hnl : ∀ c ∈ used, c ≠ 0x0a) (iv : Bool) :
    RunInv s rest' { (st.skip used.length) with inVerb := iv } := by
  refine ⟨pre ++ used, [], by simp [hs], ?_, ?_, rfl, htoks⟩
  · simp [RunSt.skip, hpos, posOf_append pre used hnl]
  · simp [RunSt.skip, hpos, posOf_append pre used hnl]


theorem finish_ok {s rest : Bytes} {st : RunSt} (h : RunInv s rest st) : LexOK s (finish st) := by
  obtain ⟨pre, hs, h1, h2, h3, h4, h5⟩ := flush_inv h
  unfold finish
  simp only []
  split
  · exact ⟨pre, by rw [hs]; exact List.prefix_append _ _, by rw [h1]; rfl, by rw [h1]; rfl⟩
  · intro t ht
    exact h4 t (by simpa using ht)

theorem lexOK_err {s pre0 cur0 : Bytes} (hs : s = pre0 ++ cur0) (k : LexErrKind) :
    LexOK s (.err ⟨k, (posOf pre0).line, (posOf pre0).col, (posOf pre0).off⟩) := prefix_ok hs

theorem lexOK_of_code {s pre cur : Bytes} {stuck : Prop} {e : LexErr} (h : CodeOK s pre cur stuck (.err e)) : LexOK s (.err e) := h

attribute [local irreducible] LexOK in
theorem run_step (T : LexTables) (hT : TagTablesOK T = true) (hM : MarkersOK T = true) (s rest : Bytes) (st : RunSt)
    (ih : ∀ rest2 st2, rest2.length < rest.length → RunInv s rest2 st2 → LexOK s (run T rest2 st2))
    (hinv : RunInv s rest st) : LexOK s (run T rest st) := by
  have hM' := hM
  simp only [MarkersOK, VerbTablesOK, Bool.and_eq_true, Bool.not_eq_true', beq_iff_eq, bne_iff_ne] at hM'
  obtain ⟨⟨⟨⟨⟨⟨⟨⟨⟨hw1, hw2⟩, hvs0⟩, hve0⟩, hvs⟩, hve⟩, hco⟩, hcc⟩, hco0⟩, hop⟩ := hM'
  have dropLt : ∀ (m : Bytes), m ≠ [] → m.isPrefixOf rest = true → (rest.drop m.length).length < rest.length := by
    intro m hm hp
    obtain ⟨r, hr⟩ := List.isPrefixOf_iff_prefix.mp hp
    have : 0 < m.length := List.length_pos_iff.mpr hm
    rw [← hr]; simp; omega
  have nl : ∀ (m : Bytes), m.elem 0x0a = false → ∀ c ∈ m, c ≠ 0x0a := by
    intro m hm c hc he; subst he; simp at hm; exact hm hc
  obtain ⟨pre, hs, f1, f2, f3, f4, f5⟩ := flush_inv hinv
  -- skipping a marker that is a prefix of the rest
  have skipM : ∀ (m : Bytes) (iv : Bool), m.isPrefixOf rest = true → m.elem 0x0a = false →
      (rest.drop m.length).length < rest.length →
      LexOK s (run T (rest.drop m.length) { (st.flush.skip m.length) with inVerb := iv }) := by
    intro m iv hp hm hlt
    obtain ⟨r, hr⟩ := List.isPrefixOf_iff_prefix.mp hp
    apply ih _ _ hlt
    have hd : rest.drop m.length = r := by rw [← hr]; simp
    rw [hd]
    exact skip_inv (pre := pre) (used := m) (by rw [hs, ← hr]) f1 f2 f4 (nl m hm) iv
  rw [run.eq_def]
  by_cases c1 : (st.inVerb && T.verbEnd.isPrefixOf rest) = true
  · rw [if_pos c1]
    simp only [Bool.and_eq_true] at c1
    have hlt := dropLt T.verbEnd hve0 c1.2
    rw [hw2, if_pos hlt]
    exact skipM T.verbEnd false c1.2 hve hlt
  · rw [if_neg c1]
    by_cases c2 : (!st.inVerb && T.verbStart.isPrefixOf rest) = true
    · rw [if_pos c2]
      simp only [Bool.and_eq_true] at c2
      have hlt := dropLt T.verbStart hvs0 c2.2
      rw [hw1, if_pos hlt]
      exact skipM T.verbStart true c2.2 hvs hlt
    · rw [if_neg c2]
      by_cases c3 : (!st.inVerb && T.commentOpen.isPrefixOf rest) = true
      · rw [if_pos c3]
        simp only [Bool.and_eq_true] at c3
        obtain ⟨r, hr⟩ := List.isPrefixOf_iff_prefix.mp c3.2
        have hd : rest.drop T.commentOpen.length = r := by rw [← hr]; simp
        split
        · rename_i rest2 m hsc
          rw [hd] at hsc
          obtain ⟨body, e1, e2, e3⟩ := scanComment_shape T.eofByte T.commentClose r.length r _ rest2 m (Nat.le_refl _) hsc
          have hlt : rest2.length < rest.length := by
            have : 0 < T.commentOpen.length := List.length_pos_iff.mpr hco0
            rw [← hr, e1]; simp; omega
          rw [if_pos hlt]
          · apply ih _ _ hlt
            have hused : ∀ c ∈ T.commentOpen ++ body ++ T.commentClose, c ≠ 0x0a := by
              intro c hc
              simp only [List.mem_append] at hc
              rcases hc with (hc | hc) | hc
              · exact nl _ hco c hc
              · exact e3 c hc
              · exact nl _ hcc c hc
            have := skip_inv (st := st.flush) (pre := pre) (used := T.commentOpen ++ body ++ T.commentClose) (rest' := rest2)
              (by rw [hs, ← hr, e1]; simp) f1 f2 f4 hused st.flush.inVerb
            have hm : m = (T.commentOpen ++ body ++ T.commentClose).length := by
              rw [e2]; simp; omega
            rw [hm]
            exact this
        · rename_i k _
          rw [f1]
          exact lexOK_err hs k
      · rw [if_neg c3]
        by_cases c4 : (!st.inVerb && isOpener T rest) = true
        · rw [if_pos c4]
          have hcode := stateCode_pos T hT s rest.length rest pre st.flush.toks (Nat.le_refl _) hs f4
          rw [f2]
          cases hsc : stateCode T rest (posOf pre) st.flush.toks with
          | ok toks rest2 pos =>
            rw [hsc] at hcode
            obtain ⟨h1, used, e1, e2, e3⟩ := hcode
            simp only []
            have hne : used ≠ [] := by
              intro he
              have hst := e3 he
              -- an opener starts with a symbol: the tokenizer cannot be stuck there
              simp only [Bool.and_eq_true, isOpener, List.any_eq_true] at c4
              obtain ⟨o, ho, hpo⟩ := c4.2
              obtain ⟨sym, hsym, hps⟩ := List.any_eq_true.mp (List.all_eq_true.mp hop o ho)
              simp only [Bool.and_eq_true, bne_iff_ne, ne_eq] at hps
              have hp2 : sym.isPrefixOf rest = true :=
                List.isPrefixOf_iff_prefix.mpr ((List.isPrefixOf_iff_prefix.mp hps.2).trans (List.isPrefixOf_iff_prefix.mp hpo))
              cases hrest : rest with
              | nil =>
                rw [hrest] at hp2
                cases sym with
                | nil => exact hps.1 rfl
                | cons a as => simp [List.isPrefixOf] at hp2
              | cons c t =>
                rw [hrest] at hst hp2
                have hnone := hst.2.2.2.2
                unfold firstSym at hnone
                rw [List.find?_eq_none] at hnone
                have := hnone sym hsym
                simp [hps.1, hp2] at this
            have hlt : rest2.length < rest.length := by
              have : 0 < used.length := List.length_pos_iff.mpr hne
              rw [e1]; simp; omega
            rw [if_pos hlt]
            apply ih _ _ hlt
            exact ⟨pre ++ used, [], by simp [hs, e1], by simp [e2], by simp [e2], rfl, h1⟩
          | err e =>
            rw [hsc] at hcode
            exact lexOK_of_code hcode
        · rw [if_neg c4]
          cases rest with
          | nil => exact finish_ok hinv
          | cons c t =>
            simp only []
            obtain ⟨pre0, mid, hs0, g1, g2, g3, g4⟩ := hinv
            have hstep : RunInv s t { st with pos := st.pos.step c, pend := c :: st.pend } :=
              ⟨pre0, mid ++ [c], by simp [hs0], g1, by simp [g2, ← List.append_assoc, posOf_snoc], by simp [g3], g4⟩
            split
            · exact finish_ok hstep
            · exact ih _ _ (by simp) hstep


theorem run_pos (T : LexTables) (hT : TagTablesOK T = true) (hM : MarkersOK T = true) (s : Bytes) :
    ∀ (n : Nat) (rest : Bytes) (st : RunSt), rest.length = n → RunInv s rest st → LexOK s (run T rest st) := by
  intro n
  induction n using Nat.strongRecOn with
  | _ n ih =>
    intro rest st hl hinv
    apply run_step T hT hM s rest st _ hinv
    intro rest2 st2 hlt hinv2
    exact ih rest2.length (by omega) rest2 st2 rfl hinv2

/-- **every token and every lexer error carries the exact position, for every input** -/
theorem lex_pos (T : LexTables) (hT : TagTablesOK T = true) (hM : MarkersOK T = true) (s : Bytes) : LexOK s (lex T s) := by
  unfold lex
  apply run_pos T hT hM s s.length s RunSt.init rfl
  exact ⟨[], [], by simp, by simp [RunSt.init, posOf_nil], by simp [RunSt.init, posOf_nil], rfl, by simp [RunSt.init]⟩


end Pongo

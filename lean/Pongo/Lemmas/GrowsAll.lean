/-
  The whole interpreter writes output only by appending: expressions (macro calls included) do
  not touch the output at all (`Quiet`), statements only add to it (`Grows`) — whether or not
  they fail.  One simultaneous induction on the fuel over all functions of the mutual block.
-/
import Pongo.Lemmas.Grows

namespace Pongo

variable (T : LexTables) (cfg : SetCfg) (g : Env)

theorem quiet_withFrameView {α} (fuel fid : Nat) {m : XM α} (hm : Quiet m) :
    Quiet (withFrameView T cfg g fuel fid m) := by
  cases fuel with
  | zero => rw [withFrameView]; exact quiet_xerr _ _
  | succ n =>
    rw [withFrameView]
    refine quiet_bind (quiet_getFrame _) fun fr => ?_
    unfold Quiet at hm ⊢
    intro σ
    simp only [EStateM.run, bind, EStateM.bind, get, getThe, MonadStateOf.get, EStateM.get, set, MonadStateOf.set, EStateM.set,
      modify, modifyGet, MonadStateOf.modifyGet, EStateM.modifyGet, tryCatch, tryCatchThe, MonadExceptOf.tryCatch, EStateM.tryCatch,
      EStateM.Backtrackable.save, EStateM.Backtrackable.restore, EStateM.dummySave, EStateM.dummyRestore]
    have h1 := hm { σ with frames := fr :: σ.frames }
    simp only [EStateM.run] at h1
    cases hr : m { σ with frames := fr :: σ.frames } with
    | ok a σ' =>
      rw [hr] at h1
      simpa [pure, EStateM.pure, endState] using h1
    | error e σ' =>
      rw [hr] at h1
      simpa [throw, throwThe, MonadExceptOf.throw, EStateM.throw, endState] using h1

structure AllGrows (fuel : Nat) : Prop where
  eval : ∀ e, Quiet (eval T cfg g fuel e)
  evalArrayItems : ∀ es, Quiet (evalArrayItems T cfg g fuel es)
  evalList : ∀ es, Quiet (evalList T cfg g fuel es)
  applyChain : ∀ c v, Quiet (applyChain T cfg g fuel c v)
  resolve : ∀ ps, Quiet (resolve T cfg g fuel ps)
  afterPart : ∀ v s c d, Quiet (afterPart T cfg g fuel v s c d)
  resolveRest : ∀ ps v s, Quiet (resolveRest T cfg g fuel ps v s)
  callFunc : ∀ f args, Quiet (callFunc T cfg g fuel f args)
  callMacro : ∀ a b args, Quiet (callMacro T cfg g fuel a b args)
  evalDefaults : ∀ ps, Quiet (evalDefaults T cfg g fuel ps)
  callSuper : ∀ a b c, Quiet (callSuper T cfg g fuel a b c)
  evalPairs : ∀ ps, Quiet (evalPairs T cfg g fuel ps)
  applyTagChain : ∀ c v, Quiet (applyTagChain T cfg g fuel c v)
  firstof : ∀ es, Grows (firstof T cfg g fuel es)
  executeTpl : ∀ a b, Grows (executeTpl T cfg g fuel a b)
  executeTplUnbuffered : ∀ a b, Grows (executeTplUnbuffered T cfg g fuel a b)
  execNodes : ∀ ns, Grows (execNodes T cfg g fuel ns)
  execNode : ∀ n, Grows (execNode T cfg g fuel n)
  ifChain : ∀ a b c, Grows (ifChain T cfg g fuel a b c)
  forLoop : ∀ a b c d e f h i j, Grows (forLoop T cfg g fuel a b c d e f h i j)

syntax "grows_step" : tactic
macro_rules
  | `(tactic| grows_step) => `(tactic| first
      | exact quiet_pure _ | exact quiet_cur | exact quiet_get | exact quiet_getFrame _ | exact quiet_liftStep _
      | exact quiet_modifyCur _ | exact quiet_modifyFrame _ _ | exact quiet_xerr _ _ | exact quiet_throw _
      | exact quiet_buffered _
      | (apply quiet_modify; intro _; rfl)
      | apply quiet_withFrame | apply quiet_withFrameView | apply quiet_bind | apply quiet_tryCatch
      | exact grows_pure _ | exact grows_get | exact grows_write _ | exact grows_xerr _ _ | exact grows_throw _
      | (apply Quiet.toGrows; first
          | exact quiet_cur | exact quiet_getFrame _ | exact quiet_liftStep _ | exact quiet_modifyCur _
          | exact quiet_modifyFrame _ _ | exact quiet_buffered _ | (apply quiet_modify; intro _; rfl))
      | apply grows_withFrame | apply grows_bind | apply grows_tryCatch
      | assumption
      | intro _
      | split)

syntax "grows_ih" ident : tactic
macro_rules
  | `(tactic| grows_ih $ih) => `(tactic| first
      | exact AllGrows.eval $ih _ | exact AllGrows.evalArrayItems $ih _ | exact AllGrows.evalList $ih _
      | exact AllGrows.applyChain $ih _ _ | exact AllGrows.resolve $ih _ | exact AllGrows.afterPart $ih _ _ _ _
      | exact AllGrows.resolveRest $ih _ _ _ | exact AllGrows.callFunc $ih _ _ | exact AllGrows.callMacro $ih _ _ _
      | exact AllGrows.evalDefaults $ih _ | exact AllGrows.callSuper $ih _ _ _ | exact AllGrows.execNodes $ih _
      | exact AllGrows.execNode $ih _ | exact AllGrows.evalPairs $ih _ | exact AllGrows.applyTagChain $ih _ _
      | exact AllGrows.firstof $ih _ | exact AllGrows.ifChain $ih _ _ _ | exact AllGrows.forLoop $ih _ _ _ _ _ _ _ _ _
      | exact AllGrows.executeTpl $ih _ _ | exact AllGrows.executeTplUnbuffered $ih _ _
      | exact (AllGrows.eval $ih _).toGrows | exact (AllGrows.evalArrayItems $ih _).toGrows | exact (AllGrows.evalList $ih _).toGrows
      | exact (AllGrows.applyChain $ih _ _).toGrows | exact (AllGrows.resolve $ih _).toGrows | exact (AllGrows.afterPart $ih _ _ _ _).toGrows
      | exact (AllGrows.resolveRest $ih _ _ _).toGrows | exact (AllGrows.callFunc $ih _ _).toGrows | exact (AllGrows.callMacro $ih _ _ _).toGrows
      | exact (AllGrows.evalDefaults $ih _).toGrows | exact (AllGrows.callSuper $ih _ _ _).toGrows
      | exact (AllGrows.evalPairs $ih _).toGrows | exact (AllGrows.applyTagChain $ih _ _).toGrows)

theorem allGrows_zero : AllGrows T cfg g 0 := by
  constructor <;> intros <;>
    first
    | (rw [eval]; exact quiet_xerr _ _)
    | (rw [evalArrayItems]; exact quiet_xerr _ _)
    | (rw [evalList]; exact quiet_xerr _ _)
    | (rw [applyChain]; exact quiet_xerr _ _)
    | (rw [resolve]; exact quiet_xerr _ _)
    | (rw [afterPart]; exact quiet_xerr _ _)
    | (rw [resolveRest]; exact quiet_xerr _ _)
    | (rw [callFunc]; exact quiet_xerr _ _)
    | (rw [callMacro]; exact quiet_xerr _ _)
    | (rw [evalDefaults]; exact quiet_xerr _ _)
    | (rw [callSuper]; exact quiet_xerr _ _)
    | (rw [evalPairs]; exact quiet_xerr _ _)
    | (rw [applyTagChain]; exact quiet_xerr _ _)
    | (rw [firstof]; exact grows_xerr _ _)
    | (rw [executeTpl]; exact grows_xerr _ _)
    | (rw [executeTplUnbuffered]; exact grows_xerr _ _)
    | (rw [execNodes]; exact grows_xerr _ _)
    | (rw [execNode]; exact grows_xerr _ _)
    | (rw [ifChain]; exact grows_xerr _ _)
    | (rw [forLoop]; exact grows_xerr _ _)

theorem allGrows_succ (n : Nat) (ih : AllGrows T cfg g n) : AllGrows T cfg g (n + 1) := by
  constructor
  · intros; rw [eval.eq_def]; (try simp only []); (repeat' grows_step) <;> (first | grows_ih ih | (simp only [Nat.succ_eq_add_one, Nat.add_right_cancel_iff] at *; subst_vars; grows_ih ih))
  · intros; rw [evalArrayItems.eq_def]; (try simp only []); (repeat' grows_step) <;> (first | grows_ih ih | (simp only [Nat.succ_eq_add_one, Nat.add_right_cancel_iff] at *; subst_vars; grows_ih ih))
  · intros; rw [evalList.eq_def]; (try simp only []); (repeat' grows_step) <;> (first | grows_ih ih | (simp only [Nat.succ_eq_add_one, Nat.add_right_cancel_iff] at *; subst_vars; grows_ih ih))
  · intros; rw [applyChain.eq_def]; (try simp only []); (repeat' grows_step) <;> (first | grows_ih ih | (simp only [Nat.succ_eq_add_one, Nat.add_right_cancel_iff] at *; subst_vars; grows_ih ih))
  · intros; rw [resolve.eq_def]; (try simp only []); (repeat' grows_step) <;> (first | grows_ih ih | (simp only [Nat.succ_eq_add_one, Nat.add_right_cancel_iff] at *; subst_vars; grows_ih ih))
  · intros; rw [afterPart.eq_def]; (try simp only []); (repeat' grows_step) <;> (first | grows_ih ih | (simp only [Nat.succ_eq_add_one, Nat.add_right_cancel_iff] at *; subst_vars; grows_ih ih))
  · intros; rw [resolveRest.eq_def]; (try simp only []); (repeat' grows_step) <;> (first | grows_ih ih | (simp only [Nat.succ_eq_add_one, Nat.add_right_cancel_iff] at *; subst_vars; grows_ih ih))
  · intros; rw [callFunc.eq_def]; (try simp only []); (repeat' grows_step) <;> (first | grows_ih ih | (simp only [Nat.succ_eq_add_one, Nat.add_right_cancel_iff] at *; subst_vars; grows_ih ih))
  · intros; rw [callMacro.eq_def]; (try simp only []); (repeat' grows_step) <;> (first | grows_ih ih | (simp only [Nat.succ_eq_add_one, Nat.add_right_cancel_iff] at *; subst_vars; grows_ih ih))
  · intros; rw [evalDefaults.eq_def]; (try simp only []); (repeat' grows_step) <;> (first | grows_ih ih | (simp only [Nat.succ_eq_add_one, Nat.add_right_cancel_iff] at *; subst_vars; grows_ih ih))
  · intros; rw [callSuper.eq_def]; (try simp only []); (repeat' grows_step) <;> (first | grows_ih ih | (simp only [Nat.succ_eq_add_one, Nat.add_right_cancel_iff] at *; subst_vars; grows_ih ih))
  · intros; rw [evalPairs.eq_def]; (try simp only []); (repeat' grows_step) <;> (first | grows_ih ih | (simp only [Nat.succ_eq_add_one, Nat.add_right_cancel_iff] at *; subst_vars; grows_ih ih))
  · intros; rw [applyTagChain.eq_def]; (try simp only []); (repeat' grows_step) <;> (first | grows_ih ih | (simp only [Nat.succ_eq_add_one, Nat.add_right_cancel_iff] at *; subst_vars; grows_ih ih))
  · intros; rw [firstof.eq_def]; (try simp only []); (repeat' grows_step) <;> (first | grows_ih ih | (simp only [Nat.succ_eq_add_one, Nat.add_right_cancel_iff] at *; subst_vars; grows_ih ih))
  · intros; rw [executeTpl.eq_def]; (try simp only []); (repeat' grows_step) <;> (first | grows_ih ih | (simp only [Nat.succ_eq_add_one, Nat.add_right_cancel_iff] at *; subst_vars; grows_ih ih))
  · intros; rw [executeTplUnbuffered.eq_def]; (try simp only []); (repeat' grows_step) <;> (first | grows_ih ih | (simp only [Nat.succ_eq_add_one, Nat.add_right_cancel_iff] at *; subst_vars; grows_ih ih))
  · intros; rw [execNodes.eq_def]; (try simp only []); (repeat' grows_step) <;> (first | grows_ih ih | (simp only [Nat.succ_eq_add_one, Nat.add_right_cancel_iff] at *; subst_vars; grows_ih ih))
  · intros; rw [execNode.eq_def]; (try simp only []); (repeat' grows_step) <;> (first | grows_ih ih | (simp only [Nat.succ_eq_add_one, Nat.add_right_cancel_iff] at *; subst_vars; grows_ih ih))
  · intros; rw [ifChain.eq_def]; (try simp only []); (repeat' grows_step) <;> (first | grows_ih ih | (simp only [Nat.succ_eq_add_one, Nat.add_right_cancel_iff] at *; subst_vars; grows_ih ih))
  · intros; rw [forLoop.eq_def]; (try simp only []); (repeat' grows_step) <;> (first | grows_ih ih | (simp only [Nat.succ_eq_add_one, Nat.add_right_cancel_iff] at *; subst_vars; grows_ih ih))

/-- **The output only grows, for every fuel, node, expression and state.** -/
theorem allGrows (fuel : Nat) : AllGrows T cfg g fuel := by
  induction fuel with
  | zero => exact allGrows_zero T cfg g
  | succ n ih => exact allGrows_succ T cfg g n ih

end Pongo

/-
  More fuel never changes an answer: one simultaneous induction on the fuel over all functions of
  the interpreter's mutual block (see `Lemmas/Fuel.lean`).
-/
import Pongo.Lemmas.Fuel
import Pongo.Lemmas.FuelParse

namespace Pongo

variable (T : LexTables) (cfg : SetCfg) (g : Env)

/-- compiling with more fuel gives the same answer, unless the answer was "out of fuel" -/
def CompileMono : Prop :=
  ∀ n cs name, (∀ e, fromFile T cfg n cs name = .error e → e.kind ≠ .outOfFuel) →
    fromFile T cfg (n + 1) cs name = fromFile T cfg n cs name

theorem le_of_eq {α} {x x' y y' : XM α} (hx : x = x') (hy : y = y') (h : Le x' y') : Le x y := by
  subst hx; subst hy; exact h

theorem le_withFrameView {α} (n fid : Nat) {m m' : XM α} (hm : Le m m') :
    Le (withFrameView T cfg g n fid m) (withFrameView T cfg g (n + 1) fid m') := by
  cases n with
  | zero => rw [withFrameView]; exact le_diverge _ _
  | succ k =>
    rw [withFrameView, withFrameView]
    refine le_bind (le_refl _) fun fr => ?_
    refine le_bind (le_refl _) fun st => ?_
    refine le_bind (le_refl _) fun _ => ?_
    refine le_tryCatch ?_ ?_
    · exact le_bind hm fun _ => le_refl _
    · intro e s; exact ⟨e, _, rfl, rfl⟩

/-- … which is a theorem (Lemmas/FuelParse.lean) -/
theorem compileMono : CompileMono T cfg := by
  intro n cs name h
  have key := (allLeD T cfg n).fromFile cs name
  unfold LeP at key
  apply key
  cases hA : fromFile T cfg n cs name with
  | ok r => simp [NotOof]
  | error e => simpa [NotOof] using h e hA

structure AllLe (n : Nat) : Prop where
  eval : ∀ x0, Le (eval T cfg g n x0) (eval T cfg g (n + 1) x0)
  evalArrayItems : ∀ x0, Le (evalArrayItems T cfg g n x0) (evalArrayItems T cfg g (n + 1) x0)
  evalList : ∀ x0, Le (evalList T cfg g n x0) (evalList T cfg g (n + 1) x0)
  applyChain : ∀ x0 x1, Le (applyChain T cfg g n x0 x1) (applyChain T cfg g (n + 1) x0 x1)
  resolve : ∀ x0, Le (resolve T cfg g n x0) (resolve T cfg g (n + 1) x0)
  afterPart : ∀ x0 x1 x2 x3, Le (afterPart T cfg g n x0 x1 x2 x3) (afterPart T cfg g (n + 1) x0 x1 x2 x3)
  resolveRest : ∀ x0 x1 x2, Le (resolveRest T cfg g n x0 x1 x2) (resolveRest T cfg g (n + 1) x0 x1 x2)
  callFunc : ∀ x0 x1, Le (callFunc T cfg g n x0 x1) (callFunc T cfg g (n + 1) x0 x1)
  callMacro : ∀ x0 x1 x2, Le (callMacro T cfg g n x0 x1 x2) (callMacro T cfg g (n + 1) x0 x1 x2)
  evalDefaults : ∀ x0, Le (evalDefaults T cfg g n x0) (evalDefaults T cfg g (n + 1) x0)
  callSuper : ∀ x0 x1 x2, Le (callSuper T cfg g n x0 x1 x2) (callSuper T cfg g (n + 1) x0 x1 x2)
  evalPairs : ∀ x0, Le (evalPairs T cfg g n x0) (evalPairs T cfg g (n + 1) x0)
  applyTagChain : ∀ x0 x1, Le (applyTagChain T cfg g n x0 x1) (applyTagChain T cfg g (n + 1) x0 x1)
  firstof : ∀ x0, Le (firstof T cfg g n x0) (firstof T cfg g (n + 1) x0)
  executeTpl : ∀ x0 x1, Le (executeTpl T cfg g n x0 x1) (executeTpl T cfg g (n + 1) x0 x1)
  executeTplUnbuffered : ∀ x0 x1, Le (executeTplUnbuffered T cfg g n x0 x1) (executeTplUnbuffered T cfg g (n + 1) x0 x1)
  execNodes : ∀ x0, Le (execNodes T cfg g n x0) (execNodes T cfg g (n + 1) x0)
  execNode : ∀ x0, Le (execNode T cfg g n x0) (execNode T cfg g (n + 1) x0)
  ifChain : ∀ x0 x1 x2, Le (ifChain T cfg g n x0 x1 x2) (ifChain T cfg g (n + 1) x0 x1 x2)
  forLoop : ∀ x0 x1 x2 x3 x4 x5 x6 x7 x8, Le (forLoop T cfg g n x0 x1 x2 x3 x4 x5 x6 x7 x8) (forLoop T cfg g (n + 1) x0 x1 x2 x3 x4 x5 x6 x7 x8)

syntax "le_ih" ident : tactic
macro_rules
  | `(tactic| le_ih $ih) => `(tactic| first
      | exact AllLe.eval $ih _
      | exact AllLe.evalArrayItems $ih _
      | exact AllLe.evalList $ih _
      | exact AllLe.applyChain $ih _ _
      | exact AllLe.resolve $ih _
      | exact AllLe.afterPart $ih _ _ _ _
      | exact AllLe.resolveRest $ih _ _ _
      | exact AllLe.callFunc $ih _ _
      | exact AllLe.callMacro $ih _ _ _
      | exact AllLe.evalDefaults $ih _
      | exact AllLe.callSuper $ih _ _ _
      | exact AllLe.evalPairs $ih _
      | exact AllLe.applyTagChain $ih _ _
      | exact AllLe.firstof $ih _
      | exact AllLe.executeTpl $ih _ _
      | exact AllLe.executeTplUnbuffered $ih _ _
      | exact AllLe.execNodes $ih _
      | exact AllLe.execNode $ih _
      | exact AllLe.ifChain $ih _ _ _
      | exact AllLe.forLoop $ih _ _ _ _ _ _ _ _ _)

syntax "le_step" : tactic
macro_rules
  | `(tactic| le_step) => `(tactic| first
      | with_reducible exact le_refl _
      | with_reducible apply le_buffered
      | with_reducible apply le_withFrame | with_reducible apply le_withFrameView
      | with_reducible apply le_bind | with_reducible apply le_tryCatch
      | (intro e s; exact ⟨_, _, rfl, rfl⟩)
      | (intro e s; dsimp only []; split <;> exact ⟨_, _, rfl, rfl⟩)
      | intro _
      | split)

theorem allLe_zero : AllLe T cfg g 0 := by
  constructor <;> intros <;>
    first
    | (rw [eval]; exact le_diverge _ _)
    | (rw [evalArrayItems]; exact le_diverge _ _)
    | (rw [evalList]; exact le_diverge _ _)
    | (rw [applyChain]; exact le_diverge _ _)
    | (rw [resolve]; exact le_diverge _ _)
    | (rw [afterPart]; exact le_diverge _ _)
    | (rw [resolveRest]; exact le_diverge _ _)
    | (rw [callFunc]; exact le_diverge _ _)
    | (rw [callMacro]; exact le_diverge _ _)
    | (rw [evalDefaults]; exact le_diverge _ _)
    | (rw [callSuper]; exact le_diverge _ _)
    | (rw [evalPairs]; exact le_diverge _ _)
    | (rw [applyTagChain]; exact le_diverge _ _)
    | (rw [firstof]; exact le_diverge _ _)
    | (rw [executeTpl]; exact le_diverge _ _)
    | (rw [executeTplUnbuffered]; exact le_diverge _ _)
    | (rw [execNodes]; exact le_diverge _ _)
    | (rw [execNode]; exact le_diverge _ _)
    | (rw [ifChain]; exact le_diverge _ _)
    | (rw [forLoop]; exact le_diverge _ _)

theorem le_eval_succ (n : Nat) (ih : AllLe T cfg g n) : ∀ x0, Le (eval T cfg g (n + 1) x0) (eval T cfg g (n + 1 + 1) x0) := by
  intro x0
  refine le_of_eq (eval.eq_def T cfg g _ _) (eval.eq_def T cfg g _ _) ?_
  (try simp only [])
  (repeat' le_step) <;> (first | le_ih ih | (simp only [Nat.succ_eq_add_one, Nat.add_right_cancel_iff] at *; subst_vars; le_ih ih) | trace_state)

theorem le_evalArrayItems_succ (n : Nat) (ih : AllLe T cfg g n) : ∀ x0, Le (evalArrayItems T cfg g (n + 1) x0) (evalArrayItems T cfg g (n + 1 + 1) x0) := by
  intro x0
  match x0 with
  | [] =>
    refine le_of_eq (evalArrayItems.eq_def T cfg g _ _) (evalArrayItems.eq_def T cfg g _ _) ?_
    (try simp only [])
    (repeat' le_step) <;> (first | le_ih ih | (simp only [Nat.succ_eq_add_one, Nat.add_right_cancel_iff] at *; subst_vars; le_ih ih) | trace_state)
  | e :: es =>
    refine le_of_eq (evalArrayItems.eq_def T cfg g _ _) (evalArrayItems.eq_def T cfg g _ _) ?_
    (try simp only [])
    (repeat' le_step) <;> (first | le_ih ih | (simp only [Nat.succ_eq_add_one, Nat.add_right_cancel_iff] at *; subst_vars; le_ih ih) | trace_state)

theorem le_evalList_succ (n : Nat) (ih : AllLe T cfg g n) : ∀ x0, Le (evalList T cfg g (n + 1) x0) (evalList T cfg g (n + 1 + 1) x0) := by
  intro x0
  match x0 with
  | [] =>
    refine le_of_eq (evalList.eq_def T cfg g _ _) (evalList.eq_def T cfg g _ _) ?_
    (try simp only [])
    (repeat' le_step) <;> (first | le_ih ih | (simp only [Nat.succ_eq_add_one, Nat.add_right_cancel_iff] at *; subst_vars; le_ih ih) | trace_state)
  | e :: es =>
    refine le_of_eq (evalList.eq_def T cfg g _ _) (evalList.eq_def T cfg g _ _) ?_
    (try simp only [])
    (repeat' le_step) <;> (first | le_ih ih | (simp only [Nat.succ_eq_add_one, Nat.add_right_cancel_iff] at *; subst_vars; le_ih ih) | trace_state)

theorem le_applyChain_succ (n : Nat) (ih : AllLe T cfg g n) : ∀ x0 x1, Le (applyChain T cfg g (n + 1) x0 x1) (applyChain T cfg g (n + 1 + 1) x0 x1) := by
  intro x0 x1
  match x0 with
  | [] =>
    refine le_of_eq (applyChain.eq_def T cfg g _ _ _) (applyChain.eq_def T cfg g _ _ _) ?_
    (try simp only [])
    (repeat' le_step) <;> (first | le_ih ih | (simp only [Nat.succ_eq_add_one, Nat.add_right_cancel_iff] at *; subst_vars; le_ih ih) | trace_state)
  | .mk name param tk :: rest =>
    refine le_of_eq (applyChain.eq_def T cfg g _ _ _) (applyChain.eq_def T cfg g _ _ _) ?_
    (try simp only [])
    (repeat' le_step) <;> (first | le_ih ih | (simp only [Nat.succ_eq_add_one, Nat.add_right_cancel_iff] at *; subst_vars; le_ih ih) | trace_state)

theorem le_resolve_succ (n : Nat) (ih : AllLe T cfg g n) : ∀ x0, Le (resolve T cfg g (n + 1) x0) (resolve T cfg g (n + 1 + 1) x0) := by
  intro x0
  refine le_of_eq (resolve.eq_def T cfg g _ _) (resolve.eq_def T cfg g _ _) ?_
  (try simp only [])
  (repeat' le_step) <;> (first | le_ih ih | (simp only [Nat.succ_eq_add_one, Nat.add_right_cancel_iff] at *; subst_vars; le_ih ih) | trace_state)

theorem le_afterPart_succ (n : Nat) (ih : AllLe T cfg g n) : ∀ x0 x1 x2 x3, Le (afterPart T cfg g (n + 1) x0 x1 x2 x3) (afterPart T cfg g (n + 1 + 1) x0 x1 x2 x3) := by
  intro x0 x1 x2 x3
  refine le_of_eq (afterPart.eq_def T cfg g _ _ _ _ _) (afterPart.eq_def T cfg g _ _ _ _ _) ?_
  (try simp only [])
  (repeat' le_step) <;> (first | le_ih ih | (simp only [Nat.succ_eq_add_one, Nat.add_right_cancel_iff] at *; subst_vars; le_ih ih) | trace_state)

theorem le_resolveRest_succ (n : Nat) (ih : AllLe T cfg g n) : ∀ x0 x1 x2, Le (resolveRest T cfg g (n + 1) x0 x1 x2) (resolveRest T cfg g (n + 1 + 1) x0 x1 x2) := by
  intro x0 x1 x2
  match x0 with
  | [] =>
    refine le_of_eq (resolveRest.eq_def T cfg g _ _ _ _) (resolveRest.eq_def T cfg g _ _ _ _) ?_
    (try simp only [])
    (repeat' le_step) <;> (first | le_ih ih | (simp only [Nat.succ_eq_add_one, Nat.add_right_cancel_iff] at *; subst_vars; le_ih ih) | trace_state)
  | part :: rest =>
    refine le_of_eq (resolveRest.eq_def T cfg g _ _ _ _) (resolveRest.eq_def T cfg g _ _ _ _) ?_
    (try simp only [])
    (repeat' le_step) <;> (first | le_ih ih | (simp only [Nat.succ_eq_add_one, Nat.add_right_cancel_iff] at *; subst_vars; le_ih ih) | trace_state)

theorem le_callFunc_succ (n : Nat) (ih : AllLe T cfg g n) : ∀ x0 x1, Le (callFunc T cfg g (n + 1) x0 x1) (callFunc T cfg g (n + 1 + 1) x0 x1) := by
  intro x0 x1
  refine le_of_eq (callFunc.eq_def T cfg g _ _ _) (callFunc.eq_def T cfg g _ _ _) ?_
  (try simp only [])
  (repeat' le_step) <;> (first | le_ih ih | (simp only [Nat.succ_eq_add_one, Nat.add_right_cancel_iff] at *; subst_vars; le_ih ih) | trace_state)

theorem le_callMacro_succ (n : Nat) (ih : AllLe T cfg g n) : ∀ x0 x1 x2, Le (callMacro T cfg g (n + 1) x0 x1 x2) (callMacro T cfg g (n + 1 + 1) x0 x1 x2) := by
  intro x0 x1 x2
  refine le_of_eq (callMacro.eq_def T cfg g _ _ _ _) (callMacro.eq_def T cfg g _ _ _ _) ?_
  (try simp only [])
  (repeat' le_step) <;> (first | le_ih ih | (simp only [Nat.succ_eq_add_one, Nat.add_right_cancel_iff] at *; subst_vars; le_ih ih) | trace_state)

theorem le_evalDefaults_succ (n : Nat) (ih : AllLe T cfg g n) : ∀ x0, Le (evalDefaults T cfg g (n + 1) x0) (evalDefaults T cfg g (n + 1 + 1) x0) := by
  intro x0
  match x0 with
  | [] =>
    refine le_of_eq (evalDefaults.eq_def T cfg g _ _) (evalDefaults.eq_def T cfg g _ _) ?_
    (try simp only [])
    (repeat' le_step) <;> (first | le_ih ih | (simp only [Nat.succ_eq_add_one, Nat.add_right_cancel_iff] at *; subst_vars; le_ih ih) | trace_state)
  | (k, d) :: rest =>
    refine le_of_eq (evalDefaults.eq_def T cfg g _ _) (evalDefaults.eq_def T cfg g _ _) ?_
    (try simp only [])
    (repeat' le_step) <;> (first | le_ih ih | (simp only [Nat.succ_eq_add_one, Nat.add_right_cancel_iff] at *; subst_vars; le_ih ih) | trace_state)

theorem le_callSuper_succ (n : Nat) (ih : AllLe T cfg g n) : ∀ x0 x1 x2, Le (callSuper T cfg g (n + 1) x0 x1 x2) (callSuper T cfg g (n + 1 + 1) x0 x1 x2) := by
  intro x0 x1 x2
  refine le_of_eq (callSuper.eq_def T cfg g _ _ _ _) (callSuper.eq_def T cfg g _ _ _ _) ?_
  (try simp only [])
  (repeat' le_step) <;> (first | le_ih ih | (simp only [Nat.succ_eq_add_one, Nat.add_right_cancel_iff] at *; subst_vars; le_ih ih) | trace_state)

theorem le_evalPairs_succ (n : Nat) (ih : AllLe T cfg g n) : ∀ x0, Le (evalPairs T cfg g (n + 1) x0) (evalPairs T cfg g (n + 1 + 1) x0) := by
  intro x0
  match x0 with
  | [] =>
    refine le_of_eq (evalPairs.eq_def T cfg g _ _) (evalPairs.eq_def T cfg g _ _) ?_
    (try simp only [])
    (repeat' le_step) <;> (first | le_ih ih | (simp only [Nat.succ_eq_add_one, Nat.add_right_cancel_iff] at *; subst_vars; le_ih ih) | trace_state)
  | (k, e) :: rest =>
    refine le_of_eq (evalPairs.eq_def T cfg g _ _) (evalPairs.eq_def T cfg g _ _) ?_
    (try simp only [])
    (repeat' le_step) <;> (first | le_ih ih | (simp only [Nat.succ_eq_add_one, Nat.add_right_cancel_iff] at *; subst_vars; le_ih ih) | trace_state)

theorem le_applyTagChain_succ (n : Nat) (ih : AllLe T cfg g n) : ∀ x0 x1, Le (applyTagChain T cfg g (n + 1) x0 x1) (applyTagChain T cfg g (n + 1 + 1) x0 x1) := by
  intro x0 x1
  match x0 with
  | [] =>
    refine le_of_eq (applyTagChain.eq_def T cfg g _ _ _) (applyTagChain.eq_def T cfg g _ _ _) ?_
    (try simp only [])
    (repeat' le_step) <;> (first | le_ih ih | (simp only [Nat.succ_eq_add_one, Nat.add_right_cancel_iff] at *; subst_vars; le_ih ih) | trace_state)
  | (name, param) :: rest =>
    refine le_of_eq (applyTagChain.eq_def T cfg g _ _ _) (applyTagChain.eq_def T cfg g _ _ _) ?_
    (try simp only [])
    (repeat' le_step) <;> (first | le_ih ih | (simp only [Nat.succ_eq_add_one, Nat.add_right_cancel_iff] at *; subst_vars; le_ih ih) | trace_state)

theorem le_firstof_succ (n : Nat) (ih : AllLe T cfg g n) : ∀ x0, Le (firstof T cfg g (n + 1) x0) (firstof T cfg g (n + 1 + 1) x0) := by
  intro x0
  match x0 with
  | [] =>
    refine le_of_eq (firstof.eq_def T cfg g _ _) (firstof.eq_def T cfg g _ _) ?_
    (try simp only [])
    (repeat' le_step) <;> (first | le_ih ih | (simp only [Nat.succ_eq_add_one, Nat.add_right_cancel_iff] at *; subst_vars; le_ih ih) | trace_state)
  | a :: rest =>
    refine le_of_eq (firstof.eq_def T cfg g _ _) (firstof.eq_def T cfg g _ _) ?_
    (try simp only [])
    (repeat' le_step) <;> (first | le_ih ih | (simp only [Nat.succ_eq_add_one, Nat.add_right_cancel_iff] at *; subst_vars; le_ih ih) | trace_state)

theorem le_executeTpl_succ (n : Nat) (ih : AllLe T cfg g n) : ∀ x0 x1, Le (executeTpl T cfg g (n + 1) x0 x1) (executeTpl T cfg g (n + 1 + 1) x0 x1) := by
  intro x0 x1
  refine le_of_eq (executeTpl.eq_def T cfg g _ _ _) (executeTpl.eq_def T cfg g _ _ _) ?_
  (try simp only [])
  (repeat' le_step) <;> (first | le_ih ih | (simp only [Nat.succ_eq_add_one, Nat.add_right_cancel_iff] at *; subst_vars; le_ih ih) | trace_state)

theorem le_executeTplUnbuffered_succ (n : Nat) (ih : AllLe T cfg g n) : ∀ x0 x1, Le (executeTplUnbuffered T cfg g (n + 1) x0 x1) (executeTplUnbuffered T cfg g (n + 1 + 1) x0 x1) := by
  intro x0 x1
  refine le_of_eq (executeTplUnbuffered.eq_def T cfg g _ _ _) (executeTplUnbuffered.eq_def T cfg g _ _ _) ?_
  (try simp only [])
  (repeat' le_step) <;> (first | le_ih ih | (simp only [Nat.succ_eq_add_one, Nat.add_right_cancel_iff] at *; subst_vars; le_ih ih) | trace_state)

theorem le_execNodes_succ (n : Nat) (ih : AllLe T cfg g n) : ∀ x0, Le (execNodes T cfg g (n + 1) x0) (execNodes T cfg g (n + 1 + 1) x0) := by
  intro x0
  match x0 with
  | [] =>
    refine le_of_eq (execNodes.eq_def T cfg g _ _) (execNodes.eq_def T cfg g _ _) ?_
    (try simp only [])
    (repeat' le_step) <;> (first | le_ih ih | (simp only [Nat.succ_eq_add_one, Nat.add_right_cancel_iff] at *; subst_vars; le_ih ih) | trace_state)
  | nd :: ns =>
    refine le_of_eq (execNodes.eq_def T cfg g _ _) (execNodes.eq_def T cfg g _ _) ?_
    (try simp only [])
    (repeat' le_step) <;> (first | le_ih ih | (simp only [Nat.succ_eq_add_one, Nat.add_right_cancel_iff] at *; subst_vars; le_ih ih) | trace_state)

theorem le_execNode_succ (hP : CompileMono T cfg) (n : Nat) (ih : AllLe T cfg g n) : ∀ x0, Le (execNode T cfg g (n + 1) x0) (execNode T cfg g (n + 1 + 1) x0) := by
  intro x0
  refine le_of_eq (execNode.eq_def T cfg g _ _) (execNode.eq_def T cfg g _ _) ?_
  simp only []
  cases x0
  case tagInclude src only pairs =>
    cases src with
    | static ti =>
      simp only []
      refine le_bind (le_refl _) fun fr => ?_
      refine le_bind (ih.evalPairs _) fun pvs => ?_
      exact ih.executeTpl _ _
    | empty => exact le_refl _
    | «lazy» fe ifExists referrer =>
      simp only []
      refine le_bind (le_refl _) fun fr => ?_
      refine le_bind (ih.evalPairs _) fun pvs => ?_
      refine le_bind (ih.eval _) fun fname => ?_
      split
      · exact le_refl _
      · refine le_bind (le_refl _) fun st => ?_
        have key := hP n st.cs (resolveFilename st.cs.tpls[referrer]!.isString st.cs.tpls[referrer]!.name fname.v.toS)
        cases hA : fromFile T cfg n st.cs (resolveFilename st.cs.tpls[referrer]!.isString st.cs.tpls[referrer]!.name fname.v.toS) with
        | ok r =>
          rw [hA] at key
          rw [key (fun e he => by cases he)]
          obtain ⟨ti, cs⟩ := r
          simp only []
          exact le_bind (le_refl _) fun _ => ih.executeTpl _ _
        | error e =>
          rw [hA] at key
          by_cases hk : e.kind = .outOfFuel
          · have h1 : (e.kind == ErrKind.fromfile) = false := by rw [hk]; rfl
            have h2 : (e.kind == ErrKind.unsupported) = false := by rw [hk]; rfl
            have h3 : (e.kind == ErrKind.outOfFuel) = true := by rw [hk]; rfl
            simp only [h1, h2, h3, Bool.false_and, if_true, if_false, Bool.false_eq_true, ite_true, ite_false]
            exact le_diverge _ _
          · rw [key (fun e' he => by cases he; exact hk)]
            exact le_refl _
  all_goals (
    simp only []
    (repeat' le_step) <;> (first | le_ih ih | (simp only [Nat.succ_eq_add_one, Nat.add_right_cancel_iff] at *; subst_vars; le_ih ih) | trace_state))

theorem le_ifChain_succ (n : Nat) (ih : AllLe T cfg g n) : ∀ x0 x1 x2, Le (ifChain T cfg g (n + 1) x0 x1 x2) (ifChain T cfg g (n + 1 + 1) x0 x1 x2) := by
  intro x0 x1 x2
  match x0 with
  | [] =>
    refine le_of_eq (ifChain.eq_def T cfg g _ _ _ _) (ifChain.eq_def T cfg g _ _ _ _) ?_
    (try simp only [])
    (repeat' le_step) <;> (first | le_ih ih | (simp only [Nat.succ_eq_add_one, Nat.add_right_cancel_iff] at *; subst_vars; le_ih ih) | trace_state)
  | c :: cs =>
    refine le_of_eq (ifChain.eq_def T cfg g _ _ _ _) (ifChain.eq_def T cfg g _ _ _ _) ?_
    (try simp only [])
    (repeat' le_step) <;> (first | le_ih ih | (simp only [Nat.succ_eq_add_one, Nat.add_right_cancel_iff] at *; subst_vars; le_ih ih) | trace_state)

theorem le_forLoop_succ (n : Nat) (ih : AllLe T cfg g n) : ∀ x0 x1 x2 x3 x4 x5 x6 x7 x8, Le (forLoop T cfg g (n + 1) x0 x1 x2 x3 x4 x5 x6 x7 x8) (forLoop T cfg g (n + 1 + 1) x0 x1 x2 x3 x4 x5 x6 x7 x8) := by
  intro x0 x1 x2 x3 x4 x5 x6 x7 x8
  match x4 with
  | [] =>
    refine le_of_eq (forLoop.eq_def T cfg g _ _ _ _ _ _ _ _ _ _) (forLoop.eq_def T cfg g _ _ _ _ _ _ _ _ _ _) ?_
    (try simp only [])
    (repeat' le_step) <;> (first | le_ih ih | (simp only [Nat.succ_eq_add_one, Nat.add_right_cancel_iff] at *; subst_vars; le_ih ih) | trace_state)
  | (k, v) :: rest =>
    refine le_of_eq (forLoop.eq_def T cfg g _ _ _ _ _ _ _ _ _ _) (forLoop.eq_def T cfg g _ _ _ _ _ _ _ _ _ _) ?_
    (try simp only [])
    (repeat' le_step) <;> (first | le_ih ih | (simp only [Nat.succ_eq_add_one, Nat.add_right_cancel_iff] at *; subst_vars; le_ih ih) | trace_state)

theorem allLe_succ (hP : CompileMono T cfg) (n : Nat) (ih : AllLe T cfg g n) : AllLe T cfg g (n + 1) where
  eval := le_eval_succ T cfg g n ih
  evalArrayItems := le_evalArrayItems_succ T cfg g n ih
  evalList := le_evalList_succ T cfg g n ih
  applyChain := le_applyChain_succ T cfg g n ih
  resolve := le_resolve_succ T cfg g n ih
  afterPart := le_afterPart_succ T cfg g n ih
  resolveRest := le_resolveRest_succ T cfg g n ih
  callFunc := le_callFunc_succ T cfg g n ih
  callMacro := le_callMacro_succ T cfg g n ih
  evalDefaults := le_evalDefaults_succ T cfg g n ih
  callSuper := le_callSuper_succ T cfg g n ih
  evalPairs := le_evalPairs_succ T cfg g n ih
  applyTagChain := le_applyTagChain_succ T cfg g n ih
  firstof := le_firstof_succ T cfg g n ih
  executeTpl := le_executeTpl_succ T cfg g n ih
  executeTplUnbuffered := le_executeTplUnbuffered_succ T cfg g n ih
  execNodes := le_execNodes_succ T cfg g n ih
  execNode := le_execNode_succ T cfg g hP n ih
  ifChain := le_ifChain_succ T cfg g n ih
  forLoop := le_forLoop_succ T cfg g n ih

/-- **More fuel never changes an answer.** -/
theorem allLe (hP : CompileMono T cfg) (fuel : Nat) : AllLe T cfg g fuel := by
  induction fuel with
  | zero => exact allLe_zero T cfg g
  | succ n ih => exact allLe_succ T cfg g hP n ih

end Pongo

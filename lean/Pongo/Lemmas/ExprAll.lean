/-
  `ExprAll Q e`: every filter call anywhere in the expression `e` — in chains, in filter
  parameters, subscripts, call arguments and list-literal items, at any depth — has a name
  satisfying `Q`.  Used with `Q = (· ≠ "safe")` by C02 and with "registered, not banned, written
  in the source" by C03.
-/
import Pongo.Model.Ast

namespace Pongo

section
variable (Q : Bytes → Prop)

mutual
  inductive ExprAll : Expr → Prop
    | str (s p) : ExprAll (.str s p)
    | int (i p) : ExprAll (.int i p)
    | float (f p) : ExprAll (.float f p)
    | bool (b p) : ExprAll (.bool b p)
    | var (parts p) : (∀ x ∈ parts, PartAll x) → ExprAll (.var parts p)
    | arr (items p) : (∀ x ∈ items, ExprAll x) → ExprAll (.arr items p)
    | filtered (e chain p) : ExprAll e → (∀ f ∈ chain, FCallAll f) → ExprAll (.filtered e chain p)
    | unary (n s e) : ExprAll e → ExprAll (.unary n s e)
    | bin (op a b p) : ExprAll a → ExprAll b → ExprAll (.bin op a b p)
  inductive PartAll : Part → Prop
    | ident (s call) : (∀ args, call = some args → ∀ a ∈ args, ExprAll a) → PartAll (.ident s call)
    | idx (i call) : (∀ args, call = some args → ∀ a ∈ args, ExprAll a) → PartAll (.idx i call)
    | sub (e call) : ExprAll e → (∀ args, call = some args → ∀ a ∈ args, ExprAll a) → PartAll (.sub e call)
  inductive FCallAll : FCall → Prop
    | mk (name param p) : Q name → (∀ e, param = some e → ExprAll e) → FCallAll (.mk name param p)
end

end

end Pongo

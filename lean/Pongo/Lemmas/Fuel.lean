/-
  More fuel never changes an answer.

  `Le x y`: whenever `x` ends in anything but the out-of-fuel error (`XKind.diverge`), `y` ends in
  exactly the same way (same value or error, same final state).  The interpreter run with fuel
  `n + 1` is `Le`-above the interpreter run with fuel `n` (Lemmas/FuelAll.lean); so an answer of
  the model that is not "diverge" is the answer for every larger fuel, and the theorems stated for
  "any fuel" speak of one semantics.
-/
import Pongo.Model.Exec

namespace Pongo

/-- the outcome is not the out-of-fuel error -/
def NotDiv {α} : EStateM.Result XErr ES α → Prop
  | .ok _ _ => True
  | .error e _ => e.kind ≠ .diverge

def Le {α} (x y : XM α) : Prop := ∀ σ : ES, NotDiv (x σ) → y σ = x σ

theorem le_refl {α} (x : XM α) : Le x x := fun _ _ => rfl

theorem le_trans {α} {x y z : XM α} (h1 : Le x y) (h2 : Le y z) : Le x z := by
  intro σ hn
  have e1 := h1 σ hn
  rw [h2 σ (by rw [e1]; exact hn), e1]

/-- out of fuel is below everything -/
theorem le_diverge {α} (msg : String) (y : XM α) : Le (xerr msg .diverge : XM α) y := by
  intro σ hn
  exact absurd rfl hn

theorem le_bind {α β} {x y : XM α} {f g : α → XM β} (hx : Le x y) (hf : ∀ a, Le (f a) (g a)) :
    Le (x >>= f) (y >>= g) := by
  intro σ hn
  simp only [bind, EStateM.bind] at hn ⊢
  cases hxs : x σ with
  | ok a s =>
    rw [hxs] at hn
    rw [hx σ (by rw [hxs]; trivial), hxs]
    exact hf a s hn
  | error e s =>
    rw [hxs] at hn
    rw [hx σ (by rw [hxs]; exact hn), hxs]

/-- the handler hands every error on, possibly relabelled, with its kind -/
def Rethrows {α} (h : XErr → XM α) : Prop :=
  ∀ e s, ∃ e' s', h e s = .error e' s' ∧ e'.kind = e.kind

theorem le_tryCatch {α} {x y : XM α} {h : XErr → XM α} (hx : Le x y) (hh : Rethrows h) :
    Le (tryCatch x h) (tryCatch y h) := by
  intro σ hn
  simp only [tryCatch, tryCatchThe, MonadExceptOf.tryCatch, EStateM.tryCatch, EStateM.Backtrackable.save,
    EStateM.Backtrackable.restore, EStateM.dummySave, EStateM.dummyRestore] at hn ⊢
  cases hxs : x σ with
  | ok a s => rw [hx σ (by rw [hxs]; trivial), hxs]
  | error e s =>
    rw [hxs] at hn
    simp only [] at hn
    obtain ⟨e', s', he, hk⟩ := hh e s
    rw [he] at hn
    have : e.kind ≠ .diverge := by rw [← hk]; exact hn
    rw [hx σ (by rw [hxs]; exact this), hxs]

theorem rethrows_modify_throw {α} (f : XErr → ES → ES) :
    Rethrows (fun e => (modify (f e) : XM Unit) >>= fun _ => (throw e : XM α)) := by
  intro e s
  exact ⟨e, f e s, rfl, rfl⟩

theorem le_buffered {m m' : XM Unit} (h : Le m m') : Le (buffered m) (buffered m') := by
  unfold buffered
  refine le_bind (le_refl _) fun st => ?_
  refine le_bind (le_refl _) fun _ => ?_
  refine le_tryCatch ?_ ?_
  · exact le_bind h fun _ => le_refl _
  · intro e s; exact ⟨e, _, rfl, rfl⟩

theorem le_withFrame {α} (fr : Frame) {m m' : XM α} (h : Le m m') : Le (withFrame fr m) (withFrame fr m') := by
  unfold withFrame
  refine le_bind (le_refl _) fun st => ?_
  refine le_bind (le_refl _) fun _ => ?_
  refine le_tryCatch ?_ ?_
  · exact le_bind h fun _ => le_refl _
  · intro e s; exact ⟨e, _, rfl, rfl⟩

attribute [irreducible] Le

end Pongo

/-
  Autoescape as an invariant of the whole interpreter (C02), part 1: the vocabulary.

  `Clean L b`  : the bytes `b` are a concatenation of chunks, each of which is template text
                 (`L`), the `escape` of something, or the engine's own rendering of a value that
                 is not text (a number, a bool, nil, `<[]string Value>` …) — or such a chunk with
                 some whitespace bytes deleted (by `spaceless`).
  `ValOK L v`  : every `*Value` box inside `v` that is marked safe holds a value of *safe shape*:
                 clean text (what a macro call or `block.Super` returned), an in-template list
                 literal, or a byte of such a text; and `v` contains no Go function.
  `NodeOK L n` : the node uses no opt-out (`safe` filter, `autoescape off`) and stays inside the
                 fragment the theorem covers (no `filter` tag, no lazy include);
                 its literal text is template text.
-/
import Pongo.Model.Exec
import Pongo.Lemmas.Spaceless
import Pongo.Lemmas.ExprAll

namespace Pongo

section
variable (L : Bytes → Prop)

/-- one chunk of output that cannot be a context string written raw -/
inductive Chunk : Bytes → Prop
  | lit (c : Bytes) : L c → Chunk c
  | esc (x : Bytes) : Chunk (escapeHtml x)
  | engine (v : Val) : v.isString = false → v.isStringer = false → Chunk v.toS
  /-- a chunk from which whitespace bytes were deleted (what `spaceless` does to its rendered body) -/
  | thin (c' c : Bytes) : Chunk c' → c.Sublist c' → nonWs c = nonWs c' → Chunk c

/-- every chunk is one of the three base kinds with some whitespace bytes deleted (none, unless it
    went through `spaceless`) -/
theorem Chunk.base {c : Bytes} (h : Chunk L c) :
    ∃ c', c.Sublist c' ∧ nonWs c = nonWs c' ∧
      (L c' ∨ (∃ x, c' = escapeHtml x) ∨ (∃ v : Val, v.isString = false ∧ v.isStringer = false ∧ c' = v.toS)) := by
  induction h with
  | lit c h => exact ⟨c, List.Sublist.refl _, rfl, Or.inl h⟩
  | esc x => exact ⟨_, List.Sublist.refl _, rfl, Or.inr (Or.inl ⟨x, rfl⟩)⟩
  | engine v h1 h2 => exact ⟨_, List.Sublist.refl _, rfl, Or.inr (Or.inr ⟨v, h1, h2, rfl⟩)⟩
  | thin c' c _ hs hn ih =>
    obtain ⟨c'', hs', hn', hk⟩ := ih
    exact ⟨c'', hs.trans hs', hn.trans hn', hk⟩

def Clean (b : Bytes) : Prop := ∃ cs : List Bytes, b = cs.flatten ∧ ∀ c ∈ cs, Chunk L c

theorem Clean.nil : Clean L [] := ⟨[], rfl, by simp⟩

theorem Clean.of_chunk {c : Bytes} (h : Chunk L c) : Clean L c := ⟨[c], by simp, by simpa using h⟩

theorem Clean.append {a b : Bytes} (ha : Clean L a) (hb : Clean L b) : Clean L (a ++ b) := by
  obtain ⟨ca, ea, ha⟩ := ha
  obtain ⟨cb, eb, hb⟩ := hb
  refine ⟨ca ++ cb, by simp [ea, eb], ?_⟩
  intro c hc
  rcases List.mem_append.mp hc with h | h
  · exact ha c h
  · exact hb c h

/-- deleting whitespace bytes from clean output leaves clean output: the deletions fall into the
    chunks, each of which stays a (thinned) chunk -/
theorem Clean.thin {b : Bytes} (hb : Clean L b) : ∀ a : Bytes, a.Sublist b → nonWs a = nonWs b → Clean L a := by
  obtain ⟨cs, rfl, hcs⟩ := hb
  induction cs with
  | nil =>
    intro a hs _
    simp only [List.flatten_nil, List.sublist_nil] at hs
    subst hs
    exact Clean.nil L
  | cons c cs ih =>
    intro a hs hn
    simp only [List.flatten_cons] at hs hn
    obtain ⟨a1, a2, rfl, h1, h2⟩ := List.sublist_append_iff.mp hs
    have f1 : (nonWs a1).Sublist (nonWs c) := h1.filter _
    have f2 : (nonWs a2).Sublist (nonWs cs.flatten) := h2.filter _
    have hn' : nonWs a1 ++ nonWs a2 = nonWs c ++ nonWs cs.flatten := by
      simpa only [nonWs, List.filter_append] using hn
    have hl : (nonWs a1).length = (nonWs c).length := by
      have l1 := f1.length_le
      have l2 := f2.length_le
      have := congrArg List.length hn'
      simp only [List.length_append] at this
      omega
    have e1 : nonWs a1 = nonWs c := f1.eq_of_length hl
    have e2 : nonWs a2 = nonWs cs.flatten := by
      rw [e1] at hn'
      exact List.append_cancel_left hn'
    have hc : Chunk L c := hcs c List.mem_cons_self
    exact Clean.append L (Clean.of_chunk L (Chunk.thin c a1 hc h1 e1))
      (ih (fun x hx => hcs x (List.mem_cons_of_mem _ hx)) a2 h2 e2)

def listT : Bytes := b!"[]*pongo2.Value"

/-- what a value marked safe can be when no opt-out is used -/
def SafeShape (v : Val) : Prop :=
  (∃ s, v = .str s ∧ Clean L s) ∨
  (∃ xs, v = .list listT xs ∧ ∀ x ∈ xs, ∃ w s, x = Val.boxed w s) ∨
  (∃ u, v = .uint u)

inductive ValOK : Val → Prop
  | nil : ValOK .nil
  | bool (b) : ValOK (.bool b)
  | int (i) : ValOK (.int i)
  | uint (u) : ValOK (.uint u)
  | float (f) : ValOK (.float f)
  | str (s) : ValOK (.str s)
  | list (ty xs) : (∀ x ∈ xs, ValOK x) → ValOK (.list ty xs)
  | arr (ty xs) : (∀ x ∈ xs, ValOK x) → ValOK (.arr ty xs)
  | smap (ty kvs) : (∀ kv ∈ kvs, ValOK kv.2) → ValOK (.smap ty kvs)
  | imap (ty kvs) : (∀ kv ∈ kvs, ValOK kv.2) → ValOK (.imap ty kvs)
  | struct (n fs p) : (∀ f ∈ fs, ValOK f.2) → ValOK (.struct n fs p)
  | ptr (v) : ValOK v → ValOK (.ptr v)
  | nilptr : ValOK .nilptr
  | boxed (v s) : ValOK v → (s = true → SafeShape L v) → ValOK (.boxed v s)
  | stringer (i t) : ValOK i → ValOK (.stringer i t)
  | closure (a b c) : ValOK (.closure a b c)
  | blockinfo (a b c) : ValOK (.blockinfo a b c)
  | cycleval (a v s) : ValOK (.cycleval a v s)

/-- an evaluated value: its boxes are in order, and if it is marked safe it has a safe shape -/
def VOK (v : V) : Prop := ValOK L v.v ∧ (v.safe = true → SafeShape L v.v)

def EnvOK (e : Env) : Prop := ∀ kv ∈ e, ValOK L kv.2

def FrameOK (f : Frame) : Prop := EnvOK L f.priv ∧ EnvOK L f.pub ∧ f.autoescape = true

/-! ### the fragment of the template language -/

/-- no opt-out: no filter of the expression is `safe` (see `Lemmas/ExprAll.lean`) -/
abbrev ExprOK : Expr → Prop := ExprAll (fun n => n ≠ b!"safe")
abbrev PartOK : Part → Prop := PartAll (fun n => n ≠ b!"safe")
abbrev FCallOK : FCall → Prop := FCallAll (fun n => n ≠ b!"safe")

inductive NodeOK : Node → Prop
  | html (val tl tr a b o) : (∀ tb lb, L (htmlOut tb lb val tl tr a b)) → NodeOK (.html val tl tr a b o)
  | var (e p) : ExprOK e → NodeOK (.var e p)
  | tagAutoescape (body) : (∀ n ∈ body, NodeOK n) → NodeOK (.tagAutoescape true body)
  | tagBlock (name) : NodeOK (.tagBlock name)
  | tagComment : NodeOK .tagComment
  | tagCycle (id args asName silent) : (∀ a ∈ args, ExprOK a) → NodeOK (.tagCycle id args asName silent)
  | tagExtends : NodeOK .tagExtends
  | tagFirstof (args) : (∀ a ∈ args, ExprOK a) → NodeOK (.tagFirstof args)
  | tagFor (key value obj r s body empty) : ExprOK obj → (∀ n ∈ body, NodeOK n) →
      (∀ eb, empty = some eb → ∀ n ∈ eb, NodeOK n) → NodeOK (.tagFor key value obj r s body empty)
  | tagIf (conds bodies) : (∀ c ∈ conds, ExprOK c) → (∀ b ∈ bodies, ∀ n ∈ b, NodeOK n) → NodeOK (.tagIf conds bodies)
  | tagIfchanged (id watch t e) : (∀ w ∈ watch, ExprOK w) → (∀ n ∈ t, NodeOK n) →
      (∀ eb, e = some eb → ∀ n ∈ eb, NodeOK n) → NodeOK (.tagIfchanged id watch t e)
  | tagIfEqual (a b t e) : ExprOK a → ExprOK b → (∀ n ∈ t, NodeOK n) →
      (∀ eb, e = some eb → ∀ n ∈ eb, NodeOK n) → NodeOK (.tagIfEqual a b t e)
  | tagIfNotEqual (a b t e) : ExprOK a → ExprOK b → (∀ n ∈ t, NodeOK n) →
      (∀ eb, e = some eb → ∀ n ∈ eb, NodeOK n) → NodeOK (.tagIfNotEqual a b t e)
  | tagImport (binds) : NodeOK (.tagImport binds)
  | tagIncludeStatic (ti only pairs) : (∀ p ∈ pairs, ExprOK p.2) → NodeOK (.tagInclude (.static ti) only pairs)
  | tagIncludeLazy (e ie ref only pairs) : ExprOK e → (∀ p ∈ pairs, ExprOK p.2) → NodeOK (.tagInclude (.lazy e ie ref) only pairs)
  | tagIncludeEmpty (only pairs) : NodeOK (.tagInclude .empty only pairs)
  | tagLorem (c m r p) : NodeOK (.tagLorem c m r p)
  | tagMacro (idx) : NodeOK (.tagMacro idx)
  | tagNow (f k) : NodeOK (.tagNow f k)
  | tagSet (name e) : ExprOK e → NodeOK (.tagSet name e)
  | tagSpaceless (body) : (∀ n ∈ body, NodeOK n) → NodeOK (.tagSpaceless body)
  | tagSsi (content ti) : (∀ c, content = some c → L c) → NodeOK (.tagSsi content ti)
  | tagTemplatetag (content) : L content → NodeOK (.tagTemplatetag content)
  | tagWidthratio (c m w asName) : ExprOK c → ExprOK m → ExprOK w → NodeOK (.tagWidthratio c m w asName)
  | tagWith (pairs body) : (∀ p ∈ pairs, ExprOK p.2) → (∀ n ∈ body, NodeOK n) → NodeOK (.tagWith pairs body)

def NodesOK (ns : List Node) : Prop := ∀ n ∈ ns, NodeOK L n

def TplOK (t : Tpl) : Prop := NodesOK L t.nodes ∧ ∀ kv ∈ t.blocks, NodesOK L kv.2

def MacroOK (m : MacroDef) : Prop := NodesOK L m.body ∧ ∀ p ∈ m.params, ∀ e, p.2 = some e → ExprOK e

def WorldOK (cs : CState) : Prop := (∀ i : Nat, TplOK L (cs.tpls[i]!)) ∧ (∀ i : Nat, MacroOK L (cs.macros[i]!))

/-- the invariant of the interpreter's state -/
structure Inv (σ : ES) : Prop where
  hout : Clean L σ.out
  hframes : ∀ f ∈ σ.frames, FrameOK L f
  hworld : WorldOK L σ.cs
  hchanged : ∀ e ∈ σ.changedC, Clean L e.2

end

end Pongo

/-
  Autoescape as an invariant of the whole interpreter (C02), part 2: a small Hoare logic.

  `Sat L Q m`: started in a state satisfying the invariant `Inv L`, the computation `m` ends in a
  state satisfying it again — whether it returns or fails — and a returned value satisfies `Q`.
-/
import Pongo.Lemmas.Clean

namespace Pongo

section
variable (L : Bytes → Prop)

def Sat {α} (Q : α → Prop) (m : XM α) : Prop :=
  ∀ σ, Inv L σ → match m σ with
    | .ok a σ' => Inv L σ' ∧ Q a
    | .error _ σ' => Inv L σ'

/-- the state after running, whatever the outcome -/
def stateAfter {α} : EStateM.Result XErr ES α → ES
  | .ok _ s => s
  | .error _ s => s

variable {L}

theorem sat_pure {α} {Q : α → Prop} {a : α} (h : Q a) : Sat L Q (pure a : XM α) := by
  intro σ hσ; exact ⟨hσ, h⟩

theorem sat_bind {α β} {P : α → Prop} {Q : β → Prop} {m : XM α} {f : α → XM β}
    (hm : Sat L P m) (hf : ∀ a, P a → Sat L Q (f a)) : Sat L Q (m >>= f) := by
  intro σ hσ
  have h := hm σ hσ
  simp only [bind, EStateM.bind]
  cases hr : m σ with
  | ok a σ' =>
    rw [hr] at h
    exact hf a h.2 σ' h.1
  | error e σ' =>
    rw [hr] at h
    exact h

theorem sat_mono {α} {P Q : α → Prop} {m : XM α} (hm : Sat L P m) (h : ∀ a, P a → Q a) : Sat L Q m := by
  intro σ hσ
  have := hm σ hσ
  cases hr : m σ with
  | ok a σ' => rw [hr] at this; exact ⟨this.1, h a this.2⟩
  | error e σ' => rw [hr] at this; exact this

theorem sat_throw {α} {Q : α → Prop} (e : XErr) : Sat L Q (throw e : XM α) := by
  intro σ hσ; exact hσ

theorem sat_xerr {α} {Q : α → Prop} (msg : String) (k : XKind) : Sat L Q (xerr msg k : XM α) := sat_throw _

theorem sat_get : Sat L (fun s => Inv L s) (get : XM ES) := by
  intro σ hσ; exact ⟨hσ, hσ⟩

theorem sat_modify {f : ES → ES} (hf : ∀ s, Inv L s → Inv L (f s)) : Sat L (fun _ => True) (modify f : XM Unit) := by
  intro σ hσ; exact ⟨hf σ hσ, trivial⟩

theorem sat_set {s : ES} (hs : Inv L s) : Sat L (fun _ => True) (set s : XM Unit) := by
  intro σ _; exact ⟨hs, trivial⟩

theorem sat_tryCatch {α} {Q : α → Prop} {m : XM α} {h : XErr → XM α}
    (hm : Sat L Q m) (hh : ∀ e, Sat L Q (h e)) : Sat L Q (tryCatch m h) := by
  intro σ hσ
  have h1 := hm σ hσ
  simp only [tryCatch, tryCatchThe, MonadExceptOf.tryCatch, EStateM.tryCatch, EStateM.Backtrackable.save,
    EStateM.Backtrackable.restore, EStateM.dummySave, EStateM.dummyRestore]
  cases hr : m σ with
  | ok a σ' => rw [hr] at h1; exact h1
  | error e σ' =>
    rw [hr] at h1
    exact hh e σ' h1

theorem sat_liftStep {α} {Q : α → Prop} (r : Except String α) (h : ∀ a, r = .ok a → Q a) : Sat L Q (liftStep r) := by
  unfold liftStep
  split
  · exact sat_pure (h _ rfl)
  · exact sat_xerr _ _

/-! ### the primitives of `Model/Exec.lean` -/

theorem sat_cur : Sat L (FrameOK L) cur := by
  intro σ hσ
  unfold cur
  simp only [bind, EStateM.bind, get, getThe, MonadStateOf.get, EStateM.get]
  cases hf : σ.frames with
  | nil => exact hσ
  | cons f t => exact ⟨hσ, hσ.hframes f (by rw [hf]; exact List.mem_cons_self)⟩

theorem sat_getFrame (id : Nat) : Sat L (FrameOK L) (getFrame id) := by
  intro σ hσ
  unfold getFrame
  simp only [bind, EStateM.bind, get, getThe, MonadStateOf.get, EStateM.get]
  cases hf : σ.frames.find? (·.id == id) with
  | none => exact hσ
  | some f => exact ⟨hσ, hσ.hframes f (List.mem_of_find?_eq_some hf)⟩

theorem sat_modifyCur {g : Frame → Frame} (hg : ∀ f, FrameOK L f → FrameOK L (g f)) :
    Sat L (fun _ => True) (modifyCur g) := by
  unfold modifyCur
  apply sat_modify
  intro s hs
  cases hf : s.frames with
  | nil => simpa [hf] using hs
  | cons f t =>
    refine ⟨hs.hout, ?_, hs.hworld, hs.hchanged⟩
    intro x hx
    simp only [List.mem_cons] at hx
    rcases hx with rfl | hx
    · exact hg f (hs.hframes f (by rw [hf]; exact List.mem_cons_self))
    · exact hs.hframes x (by rw [hf]; exact List.mem_cons_of_mem _ hx)

theorem sat_modifyFrame (id : Nat) {g : Frame → Frame} (hg : ∀ f, FrameOK L f → FrameOK L (g f)) :
    Sat L (fun _ => True) (modifyFrame id g) := by
  unfold modifyFrame
  apply sat_modify
  intro s hs
  refine ⟨hs.hout, ?_, hs.hworld, hs.hchanged⟩
  intro x hx
  simp only [List.mem_map] at hx
  obtain ⟨y, hy, rfl⟩ := hx
  split
  · exact hg y (hs.hframes y hy)
  · exact hs.hframes y hy

theorem sat_write {b : Bytes} (hb : Clean L b) : Sat L (fun _ => True) (write b) := by
  unfold write
  apply sat_modify
  intro s hs
  exact ⟨Clean.append L hs.hout hb, hs.hframes, hs.hworld, hs.hchanged⟩

/-- a buffered body: what it wrote is clean, and the real output is as it was -/
theorem sat_buffered {m : XM Unit} {P : Unit → Prop} (hm : Sat L P m) : Sat L (Clean L) (buffered m) := by
  intro σ hσ
  unfold buffered
  simp only [bind, EStateM.bind, get, getThe, MonadStateOf.get, EStateM.get, modify, modifyGet,
    MonadStateOf.modifyGet, EStateM.modifyGet, tryCatch, tryCatchThe, MonadExceptOf.tryCatch, EStateM.tryCatch,
    EStateM.Backtrackable.save, EStateM.Backtrackable.restore, EStateM.dummySave, EStateM.dummyRestore]
  have h0 : Inv L { σ with out := [] } := ⟨Clean.nil L, hσ.hframes, hσ.hworld, hσ.hchanged⟩
  have h1 := hm _ h0
  cases hr : m { σ with out := [] } with
  | ok a σ' =>
    rw [hr] at h1
    simp only [pure, EStateM.pure]
    exact ⟨⟨hσ.hout, h1.1.hframes, h1.1.hworld, h1.1.hchanged⟩, h1.1.hout⟩
  | error e σ' =>
    rw [hr] at h1
    simp only [throw, throwThe, MonadExceptOf.throw, EStateM.throw]
    exact ⟨hσ.hout, h1.hframes, h1.hworld, h1.hchanged⟩

theorem inv_tail {σ : ES} (h : Inv L σ) : Inv L { σ with frames := σ.frames.tail } :=
  ⟨h.hout, fun f hf => h.hframes f (List.mem_of_mem_tail hf), h.hworld, h.hchanged⟩

theorem sat_withFrame {α} {Q : α → Prop} {fr : Frame} {m : XM α} (hfr : FrameOK L fr) (hm : Sat L Q m) :
    Sat L Q (withFrame fr m) := by
  unfold withFrame
  refine sat_bind sat_get fun st hst => ?_
  refine sat_bind (sat_modify (f := fun s => { s with frames := { fr with id := st.nextFrame } :: s.frames, nextFrame := st.nextFrame + 1 }) ?_) fun _ _ => ?_
  · intro s hs
    refine ⟨hs.hout, ?_, hs.hworld, hs.hchanged⟩
    intro x hx
    simp only [List.mem_cons] at hx
    rcases hx with rfl | hx
    · exact hfr
    · exact hs.hframes x hx
  · refine sat_tryCatch ?_ ?_
    · refine sat_bind hm fun r hr => ?_
      exact sat_bind (sat_modify fun s hs => inv_tail hs) fun _ _ => sat_pure hr
    · intro e
      exact sat_bind (sat_modify fun s hs => inv_tail hs) fun _ _ => sat_throw e

end

end Pongo

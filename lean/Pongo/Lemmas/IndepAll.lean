/-
  The whole interpreter is independent of what the writer already holds: one simultaneous
  induction on the fuel over all functions of the mutual block (see `Lemmas/Indep.lean`).
-/
import Pongo.Lemmas.Indep

namespace Pongo

variable (T : LexTables) (cfg : SetCfg) (g : Env)

theorem indep_withFrameView {α} (fuel fid : Nat) {m : XM α} (hm : Indep m) :
    Indep (withFrameView T cfg g fuel fid m) := by
  cases fuel with
  | zero => rw [withFrameView]; exact indep_xerr _ _
  | succ n =>
    rw [withFrameView]
    refine indep_bind (indep_getFrame _) fun fr => ?_
    unfold Indep at hm ⊢
    intro σ pre
    simp only [bind, EStateM.bind, get, getThe, MonadStateOf.get, EStateM.get, set, MonadStateOf.set, EStateM.set,
      modify, modifyGet, MonadStateOf.modifyGet, EStateM.modifyGet, tryCatch, tryCatchThe, MonadExceptOf.tryCatch, EStateM.tryCatch,
      EStateM.Backtrackable.save, EStateM.Backtrackable.restore, EStateM.dummySave, EStateM.dummyRestore]
    have h1 := hm { σ with frames := fr :: σ.frames } pre
    simp only [pfx] at h1 ⊢
    rw [h1]
    cases m { σ with frames := fr :: σ.frames } with
    | ok a s => rfl
    | error e s => rfl

structure AllIndep (fuel : Nat) : Prop where
  eval : ∀ x0, Indep (eval T cfg g fuel x0)
  evalArrayItems : ∀ x0, Indep (evalArrayItems T cfg g fuel x0)
  evalList : ∀ x0, Indep (evalList T cfg g fuel x0)
  applyChain : ∀ x0 x1, Indep (applyChain T cfg g fuel x0 x1)
  resolve : ∀ x0, Indep (resolve T cfg g fuel x0)
  afterPart : ∀ x0 x1 x2 x3, Indep (afterPart T cfg g fuel x0 x1 x2 x3)
  resolveRest : ∀ x0 x1 x2, Indep (resolveRest T cfg g fuel x0 x1 x2)
  callFunc : ∀ x0 x1, Indep (callFunc T cfg g fuel x0 x1)
  callMacro : ∀ x0 x1 x2, Indep (callMacro T cfg g fuel x0 x1 x2)
  evalDefaults : ∀ x0, Indep (evalDefaults T cfg g fuel x0)
  callSuper : ∀ x0 x1 x2, Indep (callSuper T cfg g fuel x0 x1 x2)
  evalPairs : ∀ x0, Indep (evalPairs T cfg g fuel x0)
  applyTagChain : ∀ x0 x1, Indep (applyTagChain T cfg g fuel x0 x1)
  firstof : ∀ x0, Indep (firstof T cfg g fuel x0)
  executeTpl : ∀ x0 x1, Indep (executeTpl T cfg g fuel x0 x1)
  executeTplUnbuffered : ∀ x0 x1, Indep (executeTplUnbuffered T cfg g fuel x0 x1)
  execNodes : ∀ x0, Indep (execNodes T cfg g fuel x0)
  execNode : ∀ x0, Indep (execNode T cfg g fuel x0)
  ifChain : ∀ x0 x1 x2, Indep (ifChain T cfg g fuel x0 x1 x2)
  forLoop : ∀ x0 x1 x2 x3 x4 x5 x6 x7 x8, Indep (forLoop T cfg g fuel x0 x1 x2 x3 x4 x5 x6 x7 x8)

syntax "indep_step" : tactic
macro_rules
  | `(tactic| indep_step) => `(tactic| first
      | with_reducible exact indep_pure _ | with_reducible exact indep_cur | with_reducible exact indep_getFrame _
      | with_reducible exact indep_liftStep _
      | with_reducible exact indep_modifyCur _ | with_reducible exact indep_modifyFrame _ _
      | with_reducible exact indep_xerr _ _ | with_reducible exact indep_throw _
      | with_reducible exact indep_buffered _ | with_reducible exact indep_write _
      | with_reducible apply indep_modify
      | with_reducible apply indep_get_bind
      | with_reducible apply indep_withFrame | with_reducible apply indep_withFrameView
      | with_reducible apply indep_bind | with_reducible apply indep_tryCatch
      | assumption
      | intro _
      | rfl
      | split)

syntax "indep_ih" ident : tactic
macro_rules
  | `(tactic| indep_ih $ih) => `(tactic| first
      | exact AllIndep.eval $ih _
      | exact AllIndep.evalArrayItems $ih _
      | exact AllIndep.evalList $ih _
      | exact AllIndep.applyChain $ih _ _
      | exact AllIndep.resolve $ih _
      | exact AllIndep.afterPart $ih _ _ _ _
      | exact AllIndep.resolveRest $ih _ _ _
      | exact AllIndep.callFunc $ih _ _
      | exact AllIndep.callMacro $ih _ _ _
      | exact AllIndep.evalDefaults $ih _
      | exact AllIndep.callSuper $ih _ _ _
      | exact AllIndep.evalPairs $ih _
      | exact AllIndep.applyTagChain $ih _ _
      | exact AllIndep.firstof $ih _
      | exact AllIndep.executeTpl $ih _ _
      | exact AllIndep.executeTplUnbuffered $ih _ _
      | exact AllIndep.execNodes $ih _
      | exact AllIndep.execNode $ih _
      | exact AllIndep.ifChain $ih _ _ _
      | exact AllIndep.forLoop $ih _ _ _ _ _ _ _ _ _)

theorem allIndep_zero : AllIndep T cfg g 0 := by
  constructor <;> intros <;>
    first
    | (rw [eval]; exact indep_xerr _ _)
    | (rw [evalArrayItems]; exact indep_xerr _ _)
    | (rw [evalList]; exact indep_xerr _ _)
    | (rw [applyChain]; exact indep_xerr _ _)
    | (rw [resolve]; exact indep_xerr _ _)
    | (rw [afterPart]; exact indep_xerr _ _)
    | (rw [resolveRest]; exact indep_xerr _ _)
    | (rw [callFunc]; exact indep_xerr _ _)
    | (rw [callMacro]; exact indep_xerr _ _)
    | (rw [evalDefaults]; exact indep_xerr _ _)
    | (rw [callSuper]; exact indep_xerr _ _)
    | (rw [evalPairs]; exact indep_xerr _ _)
    | (rw [applyTagChain]; exact indep_xerr _ _)
    | (rw [firstof]; exact indep_xerr _ _)
    | (rw [executeTpl]; exact indep_xerr _ _)
    | (rw [executeTplUnbuffered]; exact indep_xerr _ _)
    | (rw [execNodes]; exact indep_xerr _ _)
    | (rw [execNode]; exact indep_xerr _ _)
    | (rw [ifChain]; exact indep_xerr _ _)
    | (rw [forLoop]; exact indep_xerr _ _)

theorem indep_eval_succ (n : Nat) (ih : AllIndep T cfg g n) : ∀ x0, Indep (eval T cfg g (n + 1) x0) := by
  intros; rw [eval.eq_def]; (try simp only []); (repeat' indep_step) <;> (first | indep_ih ih | (simp only [Nat.succ_eq_add_one, Nat.add_right_cancel_iff] at *; subst_vars; indep_ih ih))

theorem indep_evalArrayItems_succ (n : Nat) (ih : AllIndep T cfg g n) : ∀ x0, Indep (evalArrayItems T cfg g (n + 1) x0) := by
  intros; rw [evalArrayItems.eq_def]; (try simp only []); (repeat' indep_step) <;> (first | indep_ih ih | (simp only [Nat.succ_eq_add_one, Nat.add_right_cancel_iff] at *; subst_vars; indep_ih ih))

theorem indep_evalList_succ (n : Nat) (ih : AllIndep T cfg g n) : ∀ x0, Indep (evalList T cfg g (n + 1) x0) := by
  intros; rw [evalList.eq_def]; (try simp only []); (repeat' indep_step) <;> (first | indep_ih ih | (simp only [Nat.succ_eq_add_one, Nat.add_right_cancel_iff] at *; subst_vars; indep_ih ih))

theorem indep_applyChain_succ (n : Nat) (ih : AllIndep T cfg g n) : ∀ x0 x1, Indep (applyChain T cfg g (n + 1) x0 x1) := by
  intros; rw [applyChain.eq_def]; (try simp only []); (repeat' indep_step) <;> (first | indep_ih ih | (simp only [Nat.succ_eq_add_one, Nat.add_right_cancel_iff] at *; subst_vars; indep_ih ih))

theorem indep_resolve_succ (n : Nat) (ih : AllIndep T cfg g n) : ∀ x0, Indep (resolve T cfg g (n + 1) x0) := by
  intros; rw [resolve.eq_def]; (try simp only []); (repeat' indep_step) <;> (first | indep_ih ih | (simp only [Nat.succ_eq_add_one, Nat.add_right_cancel_iff] at *; subst_vars; indep_ih ih))

theorem indep_afterPart_succ (n : Nat) (ih : AllIndep T cfg g n) : ∀ x0 x1 x2 x3, Indep (afterPart T cfg g (n + 1) x0 x1 x2 x3) := by
  intros; rw [afterPart.eq_def]; (try simp only []); (repeat' indep_step) <;> (first | indep_ih ih | (simp only [Nat.succ_eq_add_one, Nat.add_right_cancel_iff] at *; subst_vars; indep_ih ih))

theorem indep_resolveRest_succ (n : Nat) (ih : AllIndep T cfg g n) : ∀ x0 x1 x2, Indep (resolveRest T cfg g (n + 1) x0 x1 x2) := by
  intros; rw [resolveRest.eq_def]; (try simp only []); (repeat' indep_step) <;> (first | indep_ih ih | (simp only [Nat.succ_eq_add_one, Nat.add_right_cancel_iff] at *; subst_vars; indep_ih ih))

theorem indep_callFunc_succ (n : Nat) (ih : AllIndep T cfg g n) : ∀ x0 x1, Indep (callFunc T cfg g (n + 1) x0 x1) := by
  intros; rw [callFunc.eq_def]; (try simp only []); (repeat' indep_step) <;> (first | indep_ih ih | (simp only [Nat.succ_eq_add_one, Nat.add_right_cancel_iff] at *; subst_vars; indep_ih ih))

theorem indep_callMacro_succ (n : Nat) (ih : AllIndep T cfg g n) : ∀ x0 x1 x2, Indep (callMacro T cfg g (n + 1) x0 x1 x2) := by
  intros; rw [callMacro.eq_def]; (try simp only []); (repeat' indep_step) <;> (first | indep_ih ih | (simp only [Nat.succ_eq_add_one, Nat.add_right_cancel_iff] at *; subst_vars; indep_ih ih))

theorem indep_evalDefaults_succ (n : Nat) (ih : AllIndep T cfg g n) : ∀ x0, Indep (evalDefaults T cfg g (n + 1) x0) := by
  intros; rw [evalDefaults.eq_def]; (try simp only []); (repeat' indep_step) <;> (first | indep_ih ih | (simp only [Nat.succ_eq_add_one, Nat.add_right_cancel_iff] at *; subst_vars; indep_ih ih))

theorem indep_callSuper_succ (n : Nat) (ih : AllIndep T cfg g n) : ∀ x0 x1 x2, Indep (callSuper T cfg g (n + 1) x0 x1 x2) := by
  intros; rw [callSuper.eq_def]; (try simp only []); (repeat' indep_step) <;> (first | indep_ih ih | (simp only [Nat.succ_eq_add_one, Nat.add_right_cancel_iff] at *; subst_vars; indep_ih ih))

theorem indep_evalPairs_succ (n : Nat) (ih : AllIndep T cfg g n) : ∀ x0, Indep (evalPairs T cfg g (n + 1) x0) := by
  intros; rw [evalPairs.eq_def]; (try simp only []); (repeat' indep_step) <;> (first | indep_ih ih | (simp only [Nat.succ_eq_add_one, Nat.add_right_cancel_iff] at *; subst_vars; indep_ih ih))

theorem indep_applyTagChain_succ (n : Nat) (ih : AllIndep T cfg g n) : ∀ x0 x1, Indep (applyTagChain T cfg g (n + 1) x0 x1) := by
  intros; rw [applyTagChain.eq_def]; (try simp only []); (repeat' indep_step) <;> (first | indep_ih ih | (simp only [Nat.succ_eq_add_one, Nat.add_right_cancel_iff] at *; subst_vars; indep_ih ih))

theorem indep_firstof_succ (n : Nat) (ih : AllIndep T cfg g n) : ∀ x0, Indep (firstof T cfg g (n + 1) x0) := by
  intros; rw [firstof.eq_def]; (try simp only []); (repeat' indep_step) <;> (first | indep_ih ih | (simp only [Nat.succ_eq_add_one, Nat.add_right_cancel_iff] at *; subst_vars; indep_ih ih))

theorem indep_executeTpl_succ (n : Nat) (ih : AllIndep T cfg g n) : ∀ x0 x1, Indep (executeTpl T cfg g (n + 1) x0 x1) := by
  intros; rw [executeTpl.eq_def]; (try simp only []); (repeat' indep_step) <;> (first | indep_ih ih | (simp only [Nat.succ_eq_add_one, Nat.add_right_cancel_iff] at *; subst_vars; indep_ih ih))

theorem indep_executeTplUnbuffered_succ (n : Nat) (ih : AllIndep T cfg g n) : ∀ x0 x1, Indep (executeTplUnbuffered T cfg g (n + 1) x0 x1) := by
  intros; rw [executeTplUnbuffered.eq_def]; (try simp only []); (repeat' indep_step) <;> (first | indep_ih ih | (simp only [Nat.succ_eq_add_one, Nat.add_right_cancel_iff] at *; subst_vars; indep_ih ih) | trace_state)

theorem indep_execNodes_succ (n : Nat) (ih : AllIndep T cfg g n) : ∀ x0, Indep (execNodes T cfg g (n + 1) x0) := by
  intros; rw [execNodes.eq_def]; (try simp only []); (repeat' indep_step) <;> (first | indep_ih ih | (simp only [Nat.succ_eq_add_one, Nat.add_right_cancel_iff] at *; subst_vars; indep_ih ih))

theorem indep_execNode_succ (n : Nat) (ih : AllIndep T cfg g n) : ∀ x0, Indep (execNode T cfg g (n + 1) x0) := by
  intros; rw [execNode.eq_def]; (try simp only []); (repeat' indep_step) <;> (first | indep_ih ih | (simp only [Nat.succ_eq_add_one, Nat.add_right_cancel_iff] at *; subst_vars; indep_ih ih) | trace_state)

theorem indep_ifChain_succ (n : Nat) (ih : AllIndep T cfg g n) : ∀ x0 x1 x2, Indep (ifChain T cfg g (n + 1) x0 x1 x2) := by
  intros; rw [ifChain.eq_def]; (try simp only []); (repeat' indep_step) <;> (first | indep_ih ih | (simp only [Nat.succ_eq_add_one, Nat.add_right_cancel_iff] at *; subst_vars; indep_ih ih))

theorem indep_forLoop_succ (n : Nat) (ih : AllIndep T cfg g n) : ∀ x0 x1 x2 x3 x4 x5 x6 x7 x8, Indep (forLoop T cfg g (n + 1) x0 x1 x2 x3 x4 x5 x6 x7 x8) := by
  intros; rw [forLoop.eq_def]; (try simp only []); (repeat' indep_step) <;> (first | indep_ih ih | (simp only [Nat.succ_eq_add_one, Nat.add_right_cancel_iff] at *; subst_vars; indep_ih ih))

theorem allIndep_succ (n : Nat) (ih : AllIndep T cfg g n) : AllIndep T cfg g (n + 1) where
  eval := indep_eval_succ T cfg g n ih
  evalArrayItems := indep_evalArrayItems_succ T cfg g n ih
  evalList := indep_evalList_succ T cfg g n ih
  applyChain := indep_applyChain_succ T cfg g n ih
  resolve := indep_resolve_succ T cfg g n ih
  afterPart := indep_afterPart_succ T cfg g n ih
  resolveRest := indep_resolveRest_succ T cfg g n ih
  callFunc := indep_callFunc_succ T cfg g n ih
  callMacro := indep_callMacro_succ T cfg g n ih
  evalDefaults := indep_evalDefaults_succ T cfg g n ih
  callSuper := indep_callSuper_succ T cfg g n ih
  evalPairs := indep_evalPairs_succ T cfg g n ih
  applyTagChain := indep_applyTagChain_succ T cfg g n ih
  firstof := indep_firstof_succ T cfg g n ih
  executeTpl := indep_executeTpl_succ T cfg g n ih
  executeTplUnbuffered := indep_executeTplUnbuffered_succ T cfg g n ih
  execNodes := indep_execNodes_succ T cfg g n ih
  execNode := indep_execNode_succ T cfg g n ih
  ifChain := indep_ifChain_succ T cfg g n ih
  forLoop := indep_forLoop_succ T cfg g n ih

/-- **Nothing the interpreter does depends on the bytes already written.** -/
theorem allIndep (fuel : Nat) : AllIndep T cfg g fuel := by
  induction fuel with
  | zero => exact allIndep_zero T cfg g
  | succ n ih => exact allIndep_succ T cfg g n ih

end Pongo

/-
  Lemmas about `strings.Replace` chains over single-byte keys
  (`filterEscape`, `filterAddslashes`): a chain of replacements equals one
  per-byte substitution when no replacement text contains a later key.
-/
import Pongo.Model.Filters

namespace Pongo

theorem replaceAll_single (c : UInt8) (new s : Bytes) :
    Bytes.replaceAll [c] new s = s.flatMap (fun x => if x = c then new else [x]) := by
  induction s with
  | nil => simp [Bytes.replaceAll]
  | cons x t ih =>
    rw [Bytes.replaceAll]
    by_cases h : x = c
    · subst h
      simp [List.isPrefixOf, ih]
    · have h' : (c == x) = false := by simp; exact fun e => h e.symm
      simp [List.isPrefixOf, h', ih, h]

theorem flatMap_flatMap (l : Bytes) (f g : UInt8 → Bytes) :
    (l.flatMap f).flatMap g = l.flatMap (fun x => (f x).flatMap g) := by
  induction l with
  | nil => simp
  | cons x t ih => simp [List.flatMap_cons, List.flatMap_append, ih]

/-- the per-byte substitution `filterEscape` amounts to -/
def escByte (x : UInt8) : Bytes :=
  if x = 0x26 then b!"&amp;" else if x = 0x3e then b!"&gt;" else if x = 0x3c then b!"&lt;"
  else if x = 0x22 then b!"&quot;" else if x = 0x27 then b!"&#39;" else [x]

theorem escapeHtml_eq_flatMap (s : Bytes) : escapeHtml s = s.flatMap escByte := by
  unfold escapeHtml replaceChain escapePairs
  simp only [List.foldl_cons, List.foldl_nil]
  rw [replaceAll_single, replaceAll_single, replaceAll_single, replaceAll_single, replaceAll_single]
  rw [flatMap_flatMap, flatMap_flatMap, flatMap_flatMap, flatMap_flatMap]
  congr 1
  funext x
  unfold escByte
  by_cases h1 : x = 0x26
  · subst h1; decide
  by_cases h2 : x = 0x3e
  · subst h2; decide
  by_cases h3 : x = 0x3c
  · subst h3; decide
  by_cases h4 : x = 0x22
  · subst h4; decide
  by_cases h5 : x = 0x27
  · subst h5; decide
  simp [h1, h2, h3, h4, h5]

/-- the per-byte substitution `filterAddslashes` amounts to -/
def slashByte (x : UInt8) : Bytes :=
  if x = 0x5c then b!"\\\\" else if x = 0x22 then b!"\\\"" else if x = 0x27 then b!"\\'" else [x]

theorem addslashes_eq_flatMap (s : Bytes) : addslashes s = s.flatMap slashByte := by
  unfold addslashes replaceChain addslashesPairs
  simp only [List.foldl_cons, List.foldl_nil]
  rw [replaceAll_single, replaceAll_single, replaceAll_single]
  rw [flatMap_flatMap, flatMap_flatMap]
  congr 1
  funext x
  unfold slashByte
  by_cases h1 : x = 0x5c
  · subst h1; decide
  by_cases h2 : x = 0x22
  · subst h2; decide
  by_cases h3 : x = 0x27
  · subst h3; decide
  simp [h1, h2, h3]

end Pongo

/-
  The induction step of the interpreter-wide frame discipline, and the top-level entry points.
-/
import Pongo.Lemmas.KeepsInterp

namespace Pongo

variable (T : LexTables) (cfg : SetCfg) (g : Env)

theorem allKeeps_succ (n : Nat) (ih : AllKeeps T cfg g n) : AllKeeps T cfg g (n + 1) := by
  constructor
  · intros; rw [eval.eq_def]; (try simp only []); (repeat' keeps_step) <;> (first | keeps_ih ih | (simp only [Nat.succ_eq_add_one, Nat.add_right_cancel_iff] at *; subst_vars; keeps_ih ih))
  · intros; rw [evalArrayItems.eq_def]; (try simp only []); (repeat' keeps_step) <;> (first | keeps_ih ih | (simp only [Nat.succ_eq_add_one, Nat.add_right_cancel_iff] at *; subst_vars; keeps_ih ih))
  · intros; rw [evalList.eq_def]; (try simp only []); (repeat' keeps_step) <;> (first | keeps_ih ih | (simp only [Nat.succ_eq_add_one, Nat.add_right_cancel_iff] at *; subst_vars; keeps_ih ih))
  · intros; rw [applyChain.eq_def]; (try simp only []); (repeat' keeps_step) <;> (first | keeps_ih ih | (simp only [Nat.succ_eq_add_one, Nat.add_right_cancel_iff] at *; subst_vars; keeps_ih ih))
  · intros; rw [resolve.eq_def]; (try simp only []); (repeat' keeps_step) <;> (first | keeps_ih ih | (simp only [Nat.succ_eq_add_one, Nat.add_right_cancel_iff] at *; subst_vars; keeps_ih ih))
  · intros; rw [afterPart.eq_def]; (try simp only []); (repeat' keeps_step) <;> (first | keeps_ih ih | (simp only [Nat.succ_eq_add_one, Nat.add_right_cancel_iff] at *; subst_vars; keeps_ih ih))
  · intros; rw [resolveRest.eq_def]; (try simp only []); (repeat' keeps_step) <;> (first | keeps_ih ih | (simp only [Nat.succ_eq_add_one, Nat.add_right_cancel_iff] at *; subst_vars; keeps_ih ih))
  · -- `callFunc`: the recursion counter goes up before the call and down after it, on every path
    intro f args
    rw [callFunc.eq_def]
    simp only []
    split
    · split
      · refine keepsTop_bind (keepsTop_getFrame _) fun fr => ?_
        by_cases hc : fr.macroDepth + 1 > maxMacroDepth
        · simp only [hc, if_true]
          exact keepsTop_depthRefuse _ _
        · simp only [hc, if_false]
          exact keepsTop_depthBracket _ (ih.callMacro _ _ _)
      · exact ih.callMacro _ _ _
    · exact keepsTop_xerr _ _ (by decide)
  · intros; rw [callMacro.eq_def]; (try simp only []); (repeat' keeps_step) <;> (first | keeps_ih ih | (simp only [Nat.succ_eq_add_one, Nat.add_right_cancel_iff] at *; subst_vars; keeps_ih ih))
  · intros; rw [evalDefaults.eq_def]; (try simp only []); (repeat' keeps_step) <;> (first | keeps_ih ih | (simp only [Nat.succ_eq_add_one, Nat.add_right_cancel_iff] at *; subst_vars; keeps_ih ih))
  · intros; rw [callSuper.eq_def]; (try simp only []); (repeat' keeps_step) <;> (first | keeps_ih ih | (simp only [Nat.succ_eq_add_one, Nat.add_right_cancel_iff] at *; subst_vars; keeps_ih ih))
  · intros; rw [evalPairs.eq_def]; (try simp only []); (repeat' keeps_step) <;> (first | keeps_ih ih | (simp only [Nat.succ_eq_add_one, Nat.add_right_cancel_iff] at *; subst_vars; keeps_ih ih))
  · intros; rw [applyTagChain.eq_def]; (try simp only []); (repeat' keeps_step) <;> (first | keeps_ih ih | (simp only [Nat.succ_eq_add_one, Nat.add_right_cancel_iff] at *; subst_vars; keeps_ih ih))
  · intros; rw [firstof.eq_def]; (try simp only []); (repeat' keeps_step) <;> (first | keeps_ih ih | (simp only [Nat.succ_eq_add_one, Nat.add_right_cancel_iff] at *; subst_vars; keeps_ih ih))
  · intros; rw [executeTpl.eq_def]; (try simp only []); (repeat' keeps_step) <;> (first | keeps_ih ih | (simp only [Nat.succ_eq_add_one, Nat.add_right_cancel_iff] at *; subst_vars; keeps_ih ih))
  · intros; rw [executeTplUnbuffered.eq_def]; (try simp only []); (repeat' keeps_step) <;> (first | keeps_ih ih | (simp only [Nat.succ_eq_add_one, Nat.add_right_cancel_iff] at *; subst_vars; keeps_ih ih))
  · intros; rw [execNodes.eq_def]; (try simp only []); (repeat' keeps_step) <;> (first | keeps_ih ih | (simp only [Nat.succ_eq_add_one, Nat.add_right_cancel_iff] at *; subst_vars; keeps_ih ih))
  · intros; rw [execNode.eq_def]; (try simp only []); (repeat' keeps_step) <;> (first | keeps_ih ih | (simp only [Nat.succ_eq_add_one, Nat.add_right_cancel_iff] at *; subst_vars; keeps_ih ih))
  · intros; rw [ifChain.eq_def]; (try simp only []); (repeat' keeps_step) <;> (first | keeps_ih ih | (simp only [Nat.succ_eq_add_one, Nat.add_right_cancel_iff] at *; subst_vars; keeps_ih ih))
  · intros; rw [forLoop.eq_def]; (try simp only []); (repeat' keeps_step) <;> (first | keeps_ih ih | (simp only [Nat.succ_eq_add_one, Nat.add_right_cancel_iff] at *; subst_vars; keeps_ih ih))

/-- **Frame discipline and no panic, for every fuel, node, expression and state.** -/
theorem allKeeps (fuel : Nat) : AllKeeps T cfg g fuel := by
  induction fuel with
  | zero => exact allKeeps_zero T cfg g
  | succ n ih => exact allKeeps_succ T cfg g n ih



/-- the top-level entry: no context on the stack is needed, and none is left behind -/
theorem keepsAny_executeTplUnbuffered (fuel ti : Nat) (ctx : Env) : KeepsAny (executeTplUnbuffered T cfg g fuel ti ctx) := by
  cases fuel with
  | zero => rw [executeTplUnbuffered]; exact keepsAny_xerr _ _ (by decide)
  | succ n =>
    rw [executeTplUnbuffered]
    simp only []
    refine keepsAny_bind keepsAny_get fun st => ?_
    split
    · exact keepsAny_xerr _ _ (by decide)
    · split
      · exact keepsAny_xerr _ _ (by decide)
      · refine keepsAny_bind keepsAny_get fun saved => ?_
        refine keepsAny_bind (keepsAny_modify _ (fun s => rfl)) fun _ => ?_
        refine keepsAny_tryCatch ?_ ?_
        · refine keepsAny_bind (keepsAny_withFrame _ ((allKeeps T cfg g n).execNodes _)) fun _ => ?_
          exact keepsAny_modify _ (fun s => rfl)
        · intro e he
          exact keepsAny_bind (keepsAny_modify _ (fun s => rfl)) fun _ => keepsAny_throw e he

theorem keepsAny_executeTpl (fuel ti : Nat) (ctx : Env) : KeepsAny (executeTpl T cfg g fuel ti ctx) := by
  cases fuel with
  | zero => rw [executeTpl]; exact keepsAny_xerr _ _ (by decide)
  | succ n =>
    rw [executeTpl]
    exact keepsAny_bind (keepsAny_buffered (keepsAny_executeTplUnbuffered T cfg g n ti ctx)) fun out => keepsAny_write out

end Pongo

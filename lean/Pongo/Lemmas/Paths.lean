/-
  A dotted name over plain data denotes exactly the value obtained by following its steps.

  `follow` is the reference: fold the step functions (`stepName`, `stepIndex`) over the path,
  following pointers, stopping with the empty value at the first missing key / out-of-range index /
  nil.  `resolveRest_follows` shows that the interpreter's resolver — method lookup, pointer
  dereference, step, validity checks, `*Value` unpacking, call handling — computes the same on
  plain data (no functions, no `*Value` boxes, no values with methods) for paths of any length.
-/
import Pongo.Model.Exec
import Pongo.Lemmas.Eval

namespace Pongo

/-- plain data: what a path walks through without any call -/
inductive Plain : Val → Prop
  | nil : Plain .nil
  | bool (b) : Plain (.bool b)
  | int (i) : Plain (.int i)
  | uint (u) : Plain (.uint u)
  | float (f) : Plain (.float f)
  | str (s) : Plain (.str s)
  | list (ty xs) : (∀ x ∈ xs, Plain x) → Plain (.list ty xs)
  | arr (ty xs) : (∀ x ∈ xs, Plain x) → Plain (.arr ty xs)
  | smap (ty kvs) : (∀ kv ∈ kvs, Plain kv.2) → Plain (.smap ty kvs)
  | imap (ty kvs) : (∀ kv ∈ kvs, Plain kv.2) → Plain (.imap ty kvs)
  | struct (tn fs pv) : tn ≠ b!"main.VS1" → (∀ f ∈ fs, Plain f.2) → Plain (.struct tn fs pv)
  | ptr (tn fs pv) : Plain (.struct tn fs pv) → Plain (.ptr (.struct tn fs pv))

/-- a step without a call: `.name` or `.3` -/
def PlainPart : Part → Prop
  | .ident _ none => True
  | .idx _ none => True
  | _ => False

def stepOf (cv : Val) : Part → Except String (Option Val)
  | .ident s _ => stepName cv s
  | .idx i _ => stepIndex cv i
  | .sub _ _ => .error "subscript"

/-- the reference: follow the steps -/
def follow : Val → List Part → Except String Val
  | v, [] => .ok v
  | v, p :: ps =>
    match derefStep v with
    | none => .ok .nil
    | some cv =>
      match stepOf cv p with
      | .error m => .error m
      | .ok none => .ok .nil
      | .ok (some nv) => if nv.kind == .invalid then .ok .nil else follow nv ps

theorem lookup_plain {kvs : List (Bytes × Val)} (h : ∀ kv ∈ kvs, Plain kv.2) {k : Bytes} {v : Val} (hl : kvs.lookup k = some v) : Plain v := by
  induction kvs with
  | nil => simp at hl
  | cons kv t ih =>
    obtain ⟨a, b⟩ := kv
    simp only [List.lookup_cons] at hl
    split at hl
    · simp only [Option.some.injEq] at hl
      subst hl
      exact h (a, b) List.mem_cons_self
    · exact ih (fun x hx => h x (List.mem_cons_of_mem _ hx)) hl

theorem getD_plain {xs : List Val} (h : ∀ x ∈ xs, Plain x) (n : Nat) : Plain (xs.getD n .nil) := by
  rw [List.getD_eq_getElem?_getD]
  cases hx : xs[n]? with
  | none => exact Plain.nil
  | some x => exact h x (List.mem_of_getElem? hx)

/-- what a plain value's pointer leads to is plain -/
theorem deref_plain {v cv : Val} (hv : Plain v) (h : derefStep v = some cv) : Plain cv := by
  cases hv <;> simp only [derefStep, Option.some.injEq] at h <;> subst h
  all_goals first | exact Plain.nil | exact Plain.bool _ | exact Plain.int _ | exact Plain.uint _ | exact Plain.float _ | exact Plain.str _ | skip
  · exact Plain.list _ _ ‹_›
  · exact Plain.arr _ _ ‹_›
  · exact Plain.smap _ _ ‹_›
  · exact Plain.imap _ _ ‹_›
  · exact Plain.struct _ _ _ ‹_› ‹_›
  · assumption

/-- a step from plain data leads to plain data -/
theorem step_plain {cv nv : Val} {p : Part} (hcv : Plain cv) (h : stepOf cv p = .ok (some nv)) : Plain nv := by
  cases p with
  | sub e c => simp [stepOf] at h
  | ident s c =>
    simp only [stepOf] at h
    cases hcv <;> simp only [stepName, Except.ok.injEq, reduceCtorEq] at h
    · exact lookup_plain ‹_› h
    · exact lookup_plain ‹_› h
  | idx i c =>
    simp only [stepOf, stepIndex] at h
    cases hcv <;> simp only [seqAt, Except.ok.injEq, reduceCtorEq] at h
    · split at h
      · simp only [Option.some.injEq] at h; subst h; exact Plain.uint _
      · cases h
    · split at h
      · simp only [Option.some.injEq] at h; subst h; exact getD_plain ‹_› _
      · cases h
    · split at h
      · simp only [Option.some.injEq] at h; subst h; exact getD_plain ‹_› _
      · cases h

theorem plain_no_super {v : Val} (hv : Plain v) (p : Part) : superOf p v = none := by
  cases hv <;> cases p <;> rfl

theorem plain_no_method {v : Val} (hv : Plain v) (p : Part) : goMethodAt p v = none := by
  cases p with
  | ident s c =>
    cases hv <;> simp only [goMethodAt, goMethodOf, Option.map_none]
    · rename_i tn fs pv htn _
      simp [htn]
    · rename_i tn fs pv hs
      cases hs with
      | struct _ _ _ htn _ => simp [htn]
  | idx i c => rfl
  | sub e c => rfl

theorem plain_deref {v : Val} (hv : Plain v) : ∃ cv, derefStep v = some cv := by
  cases hv <;> exact ⟨_, rfl⟩

theorem plain_not_func {v : Val} (hv : Plain v) : (v.kind == .func) = false := by
  cases hv <;> rfl

section
variable (T : LexTables) (cfg : SetCfg) (g : Env)

/-- the checks after a step, on plain data without a call: the value itself, or nothing when it is nil -/
theorem afterPart_plain {nv : Val} (hnv : Plain nv) (k : Nat) (d : Bool) (σ : ES) :
    (afterPart T cfg g (k + 1) nv false none d).run σ = .ok (if nv.kind == .invalid then none else some (nv, false)) σ := by
  rw [afterPart]
  have hu : unboxDirect nv false d = (nv, false) := by cases hnv <;> cases d <;> rfl
  by_cases hk : (nv.kind == .invalid) = true
  · simp [hk, EStateM.run, bind, EStateM.bind, pure, EStateM.pure]
  · simp [hk, hu, plain_not_func hnv, EStateM.run, bind, EStateM.bind, pure, EStateM.pure]

/-- **the resolver follows the steps**: on plain data, for paths of any length -/
theorem resolveRest_follows : ∀ (ps : List Part) (v : Val) (fuel : Nat) (σ : ES), (∀ p ∈ ps, PlainPart p) → Plain v →
    fuel ≥ ps.length + 1 →
    (resolveRest T cfg g fuel ps v false).run σ =
      (match follow v ps with
        | .ok r => (pure ⟨r, false⟩ : XM V)
        | .error m => xerr m).run σ
  | [], v, fuel, σ, _, _, hf => by
    obtain ⟨n, rfl⟩ : ∃ n, fuel = n + 1 := ⟨fuel - 1, by simp at hf; omega⟩
    simp [resolveRest, follow]
  | p :: rest, v, fuel, σ, hp, hv, hf => by
    obtain ⟨n, rfl⟩ : ∃ n, fuel = n + 2 := ⟨fuel - 2, by simp at hf; omega⟩
    obtain ⟨cv, hcv⟩ := plain_deref hv
    have hpl := deref_plain hv hcv
    have hpp := hp p List.mem_cons_self
    rw [resolveRest]
    simp only [plain_no_super hv, plain_no_method hv, hcv, follow]
    cases p with
    | sub e c => exact absurd hpp (by simp [PlainPart])
    | ident s c =>
      cases c with
      | some a => exact absurd hpp (by simp [PlainPart])
      | none =>
        simp only [stepOf, Part.callArgs]
        cases hs : stepName cv s with
        | error m => simp [liftStep, EStateM.run, bind, EStateM.bind, xerr, throw, throwThe, MonadExceptOf.throw, EStateM.throw]
        | ok o =>
          cases o with
          | none => simp [liftStep, EStateM.run, bind, EStateM.bind, pure, EStateM.pure, mkV]
          | some nv =>
            have hnv : Plain nv := step_plain (p := .ident s none) hpl (by simpa [stepOf] using hs)
            have ha := afterPart_plain T cfg g hnv n (typedElems cv) σ
            simp only [liftStep]
            rw [run_bind_ok (by rfl : (pure (some nv) : XM (Option Val)).run σ = .ok (some nv) σ)]
            simp only [Option.isSome_none, Bool.and_false, Bool.false_eq_true, if_false]
            rw [run_bind_ok ha]
            by_cases hk : (nv.kind == .invalid) = true
            · simp [hk, EStateM.run, pure, EStateM.pure, mkV]
            · simp only [hk]
              exact resolveRest_follows rest nv (n + 1) σ (fun q hq => hp q (List.mem_cons_of_mem _ hq)) hnv (by simp at hf ⊢; omega)
    | idx i c =>
      cases c with
      | some a => exact absurd hpp (by simp [PlainPart])
      | none =>
        simp only [stepOf, Part.callArgs]
        cases hs : stepIndex cv i with
        | error m => simp [liftStep, EStateM.run, bind, EStateM.bind, xerr, throw, throwThe, MonadExceptOf.throw, EStateM.throw]
        | ok o =>
          cases o with
          | none => simp [liftStep, EStateM.run, bind, EStateM.bind, pure, EStateM.pure, mkV]
          | some nv =>
            have hnv : Plain nv := step_plain (p := .idx i none) hpl (by simpa [stepOf] using hs)
            have ha := afterPart_plain T cfg g hnv n (typedElems cv) σ
            simp only [liftStep]
            rw [run_bind_ok (by rfl : (pure (some nv) : XM (Option Val)).run σ = .ok (some nv) σ)]
            simp only [Option.isSome_none, Bool.and_false, Bool.false_eq_true, if_false]
            rw [run_bind_ok ha]
            by_cases hk : (nv.kind == .invalid) = true
            · simp [hk, EStateM.run, pure, EStateM.pure, mkV]
            · simp only [hk]
              exact resolveRest_follows rest nv (n + 1) σ (fun q hq => hp q (List.mem_cons_of_mem _ hq)) hnv (by simp at hf ⊢; omega)

end

end Pongo

/-
  Lemmas relating the evaluator (`eval`, `evalBin`, `evalUnary`) to the
  reference semantics of `Pongo/Spec/Expr.lean` on typed scalars.
-/
import Pongo.Spec.Expr

namespace Pongo
open Spec

@[simp] theorem toInt_int (i : Int64) : (Val.int i).toInt = i := rfl
@[simp] theorem toFloat_int (i : Int64) : (Val.int i).toFloat = Float.ofInt i.toInt := rfl
@[simp] theorem toFloat_float (f : Float) : (Val.float f).toFloat = f := rfl
@[simp] theorem toS_str (s : Bytes) : (Val.str s).toS = s := rfl
@[simp] theorem toS_int (i : Int64) : (Val.int i).toS = fmtInt i := rfl
@[simp] theorem toS_float (f : Float) : (Val.float f).toS = fmtFloat f := rfl

@[simp] theorem toVal_bool (b : Bool) : (SV.bool b).toVal = .bool b := rfl
@[simp] theorem toVal_int (i : Int64) : (SV.int i).toVal = .int i := rfl

@[simp] theorem mkV_v (v : Val) : (mkV v).v = v := rfl

@[simp] theorem isTrue_toVal (x : SV) : x.toVal.isTrue = x.truthy := by
  cases x <;> simp [SV.toVal, SV.truthy, Val.isTrue, Val.resolved]

/-- agreement of a pure operator result with the reference -/
def resOf : Except DErr SV → Except String V → Prop
  | .ok v, r => r = .ok (mkV v.toVal)
  | .error .zero, r => ∃ m, r = .error m
  | .error .ill, _ => True

theorem resOf_ite {c : Prop} [Decidable c] {A B : Except DErr SV} {A' B' : Except String V}
    (h1 : c → resOf A A') (h2 : ¬c → resOf B B') : resOf (if c then A else B) (if c then A' else B') := by
  by_cases h : c <;> simp [h, h1, h2]

set_option maxHeartbeats 1000000 in
/-- every binary operator other than and/or computes the reference result on typed scalars -/
theorem evalBin_denote (op : BinOp) (a c : SV) (h1 : op ≠ .and) (h2 : op ≠ .or) :
    resOf (denoteBin op a c) (evalBin op (mkV a.toVal) (mkV c.toVal)) := by
  cases op <;> cases a <;> cases c <;>
    simp [denoteBin, evalBin, mkV, SV.toVal, SV.isNum, SV.toFloat, Val.isFloat, Val.isString, Val.rkind, Val.kind,
      equalValueTo, Val.isInteger, Val.isBool, Val.reflected, Val.toFloat, comparableDeep, goEq, containsVal, Val.resolved] at h1 h2 ⊢
  all_goals first
    | (simp [resOf, SV.toVal, mkV, bne]; done)
    | (apply resOf_ite <;> intro _ <;> simp [resOf, SV.toVal, mkV])
    | (simp only [resOf, SV.toVal, mkV]; congr; done)

/-- the leading `not` / `-` computes the reference result on typed scalars -/
theorem evalUnary_denote (op : UnOp) (a : SV) :
    resOf (denoteUn op a) (evalUnary (op == .not) (op == .neg) (mkV a.toVal)) := by
  cases op <;> cases a <;>
    simp [denoteUn, evalUnary, resOf, mkV, SV.toVal, Val.negate, Val.rkind, Val.kind, Val.isNumber, Val.isInteger, Val.isFloat,
      Val.resolved, Val.len]
  all_goals first | rfl | (split <;> simp_all)

/-! ### the evaluator monad -/

theorem run_bind_ok {α β} {x : XM α} {f : α → XM β} {σ σ' : ES} {a : α}
    (h : x.run σ = .ok a σ') : (x >>= f).run σ = (f a).run σ' := by
  simp only [EStateM.run] at h ⊢
  simp [bind, EStateM.bind, h]

theorem run_bind_err {α β} {x : XM α} {f : α → XM β} {σ σ' : ES} {e : XErr}
    (h : x.run σ = .error e σ') : (x >>= f).run σ = .error e σ' := by
  simp only [EStateM.run] at h ⊢
  simp [bind, EStateM.bind, h]

theorem run_ebind_ok {α β} {x : XM α} {f : α → XM β} {σ σ' : ES} {a : α}
    (h : x.run σ = .ok a σ') : (EStateM.bind x f).run σ = (f a).run σ' := by
  simp only [EStateM.run] at h ⊢
  simp [EStateM.bind, h]

theorem run_ebind_err {α β} {x : XM α} {f : α → XM β} {σ σ' : ES} {e : XErr}
    (h : x.run σ = .error e σ') : (EStateM.bind x f).run σ = .error e σ' := by
  simp only [EStateM.run] at h ⊢
  simp [EStateM.bind, h]

/-- the state an expression of the fragment is evaluated in: the current
    context binds the variables in `Public` only, to scalars -/
def EnvOK (σ : ES) (env : Bytes → Option SV) : Prop :=
  ∃ fr rest, σ.frames = fr :: rest ∧ ∀ x, fr.priv.lookup x = none ∧ fr.pub.lookup x = (env x).map SV.toVal

/-- agreement of an evaluation with the reference: same value and unchanged
    state; an execution error exactly where the reference has a zero divisor;
    nothing is claimed outside the fragment -/
def Agrees (r : Except DErr SV) (x : XM V) (σ : ES) : Prop :=
  match r with
  | .ok v => x.run σ = .ok (mkV v.toVal) σ
  | .error .zero => ∃ e, x.run σ = .error e σ ∧ e.kind = .exec
  | .error .ill => True

end Pongo

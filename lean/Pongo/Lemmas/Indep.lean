/-
  A rendering does not depend on what the writer already holds.

  `Indep m`: running `m` in a state whose output buffer has extra bytes `pre` in front gives the
  same outcome and the same final state, with the same `pre` in front of the output.  In
  particular nothing the interpreter does reads the output back.
-/
import Pongo.Model.Exec

namespace Pongo

/-- `pre` in front of the output of the state -/
def pfx (pre : Bytes) (s : ES) : ES := { s with out := pre ++ s.out }

def shift {α} (pre : Bytes) : EStateM.Result XErr ES α → EStateM.Result XErr ES α
  | .ok a s => .ok a (pfx pre s)
  | .error e s => .error e (pfx pre s)

def Indep {α} (m : XM α) : Prop := ∀ (σ : ES) (pre : Bytes), m (pfx pre σ) = shift pre (m σ)

theorem indep_pure {α} (a : α) : Indep (pure a : XM α) := fun _ _ => rfl

theorem indep_throw {α} (e : XErr) : Indep (throw e : XM α) := fun _ _ => rfl

theorem indep_xerr {α} (msg : String) (k : XKind) : Indep (xerr msg k : XM α) := fun _ _ => rfl

theorem indep_bind {α β} {m : XM α} {f : α → XM β} (hm : Indep m) (hf : ∀ a, Indep (f a)) : Indep (m >>= f) := by
  intro σ pre
  simp only [bind, EStateM.bind]
  rw [hm σ pre]
  cases m σ with
  | ok a s => simp only [shift]; exact hf a s pre
  | error e s => rfl

/-- reading the state: the continuation must not look at the output -/
theorem indep_get_bind {β} {f : ES → XM β} (h1 : ∀ s, Indep (f s)) (h2 : ∀ s pre, f (pfx pre s) = f s) :
    Indep (get >>= f) := by
  intro σ pre
  simp only [bind, EStateM.bind, get, getThe, MonadStateOf.get, EStateM.get]
  rw [h2 σ pre]
  exact h1 σ σ pre

theorem indep_modify {f : ES → ES} (hf : ∀ s pre, f (pfx pre s) = pfx pre (f s)) : Indep (modify f : XM Unit) := by
  intro σ pre
  simp only [modify, modifyGet, MonadStateOf.modifyGet, EStateM.modifyGet, shift, hf]

theorem indep_tryCatch {α} {m : XM α} {h : XErr → XM α} (hm : Indep m) (hh : ∀ e, Indep (h e)) : Indep (tryCatch m h) := by
  intro σ pre
  simp only [tryCatch, tryCatchThe, MonadExceptOf.tryCatch, EStateM.tryCatch, EStateM.Backtrackable.save,
    EStateM.Backtrackable.restore, EStateM.dummySave, EStateM.dummyRestore]
  rw [hm σ pre]
  cases m σ with
  | ok a s => rfl
  | error e s => simp only [shift]; exact hh e s pre

theorem indep_liftStep {α} (r : Except String α) : Indep (liftStep r) := by
  unfold liftStep
  split
  · exact indep_pure _
  · exact indep_xerr _ _

theorem indep_cur : Indep cur := by
  intro σ pre
  unfold cur
  obtain ⟨frames, a, b, c, d, e, f⟩ := σ
  simp only [bind, EStateM.bind, get, getThe, MonadStateOf.get, EStateM.get, pfx]
  cases frames <;> rfl

theorem indep_getFrame (id : Nat) : Indep (getFrame id) := by
  intro σ pre
  unfold getFrame
  simp only [bind, EStateM.bind, get, getThe, MonadStateOf.get, EStateM.get, pfx]
  cases h : σ.frames.find? (·.id == id) <;> rfl

theorem indep_modifyCur (f : Frame → Frame) : Indep (modifyCur f) := by
  unfold modifyCur
  apply indep_modify
  intro s pre
  obtain ⟨frames, a, b, c, d, e, g⟩ := s
  simp only [pfx]
  cases frames <;> rfl

theorem indep_modifyFrame (id : Nat) (f : Frame → Frame) : Indep (modifyFrame id f) := by
  unfold modifyFrame
  exact indep_modify fun s pre => rfl

theorem indep_write (b : Bytes) : Indep (write b) := by
  unfold write
  apply indep_modify
  intro s pre
  simp [pfx, List.append_assoc]

/-- a buffered body never sees the real output at all: whatever `m` is -/
theorem indep_buffered (m : XM Unit) : Indep (buffered m) := by
  intro σ pre
  unfold buffered
  simp only [bind, EStateM.bind, get, getThe, MonadStateOf.get, EStateM.get, modify, modifyGet,
    MonadStateOf.modifyGet, EStateM.modifyGet, tryCatch, tryCatchThe, MonadExceptOf.tryCatch, EStateM.tryCatch,
    EStateM.Backtrackable.save, EStateM.Backtrackable.restore, EStateM.dummySave, EStateM.dummyRestore, pfx]
  cases m { σ with out := [] } with
  | ok a s => rfl
  | error e s => rfl

theorem indep_withFrame {α} (fr : Frame) {m : XM α} (hm : Indep m) : Indep (withFrame fr m) := by
  unfold withFrame
  refine indep_get_bind (fun st => ?_) (fun s pre => rfl)
  refine indep_bind (indep_modify fun s pre => rfl) fun _ => ?_
  refine indep_tryCatch ?_ ?_
  · refine indep_bind hm fun r => ?_
    exact indep_bind (indep_modify fun s pre => rfl) fun _ => indep_pure _
  · intro e
    exact indep_bind (indep_modify fun s pre => rfl) fun _ => indep_throw e

attribute [irreducible] Indep

end Pongo

/-
  `spaceless` deletes nothing but whitespace (helper lemmas of C15, also used by C02's invariant).
-/
import Pongo.Model.Exec

namespace Pongo

/-- every candidate tag end splits the input: `acc ++ t = tag ++ rest` -/
theorem lazyTagEnds_split (t acc : Bytes) :
    ∀ p ∈ lazyTagEnds t acc, acc ++ t = p.1 ++ p.2 := by
  induction t generalizing acc with
  | nil => simp [lazyTagEnds]
  | cons c t ih =>
    intro p hp
    unfold lazyTagEnds at hp
    split at hp
    · simp at hp
    · split at hp
      · rcases List.mem_cons.1 hp with h | h
        · subst h; simp
        · have := ih (acc ++ [c]) p h; simpa using this
      · have := ih (acc ++ [c]) p hp; simpa using this

/-- a successful match at a `<` rewrites `<` :: t to the same bytes minus one non-empty
    run of whitespace that sits directly between a `>` and a `<` -/
theorem spacelessMatchAt_shape (t rep rest : Bytes) (h : spacelessMatchAt t = some (rep, rest)) :
    ∃ tag1 ws tag2, 0x3c :: t = tag1 ++ ws ++ tag2 ++ rest ∧ rep = tag1 ++ tag2 ∧
      ws ≠ [] ∧ (∀ c ∈ ws, isWs c = true) := by
  unfold spacelessMatchAt at h
  obtain ⟨⟨tag1, r1⟩, hmem, hf⟩ := List.exists_of_findSome?_eq_some h
  have e1 := lazyTagEnds_split t [0x3c] _ hmem
  simp only at hf e1
  split at hf
  · cases hf
  · rename_i hws
    split at hf
    · rename_i t2 hafter
      split at hf
      · rename_i tag2 rest2 tl hl
        cases hf
        have e2 := lazyTagEnds_split t2 [0x3c] (tag2, rest) (by rw [hl]; exact List.mem_cons_self)
        simp only at e2
        refine ⟨tag1, r1.takeWhile isWs, tag2, ?_, rfl, hws, ?_⟩
        · have : r1 = r1.takeWhile isWs ++ r1.dropWhile isWs := (List.takeWhile_append_dropWhile).symm
          simp only [List.singleton_append] at e1 e2
          rw [e1]
          conv => lhs; rw [this, hafter, e2]
          simp
        · intro c hc
          have := List.all_takeWhile (p := isWs) (l := r1)
          exact List.all_eq_true.1 this c hc
      · cases hf
    · cases hf

/-- the non-whitespace bytes of a string -/
def nonWs (s : Bytes) : Bytes := s.filter (fun c => !isWs c)

theorem nonWs_of_ws (ws : Bytes) (h : ∀ c ∈ ws, isWs c = true) : nonWs ws = [] := by
  simp only [nonWs, List.filter_eq_nil_iff]
  intro c hc; simp [h c hc]

/-- one pass deletes only whitespace: the result is a subsequence of the input with the
    same non-whitespace bytes in the same order -/
theorem spacelessPass_only_deletes_whitespace (fuel : Nat) (s : Bytes) :
    (spacelessPass fuel s).Sublist s ∧ nonWs (spacelessPass fuel s) = nonWs s := by
  induction fuel generalizing s with
  | zero => simp [spacelessPass]
  | succ n ih =>
    cases s with
    | nil => simp [spacelessPass]
    | cons c t =>
      unfold spacelessPass
      split
      · rename_i hc
        have hc' : c = 0x3c := by simpa using hc
        split
        · rename_i rep rest hm
          obtain ⟨tag1, ws, tag2, e, hrep, _, hws⟩ := spacelessMatchAt_shape t rep rest hm
          subst hrep hc'
          rw [e]
          obtain ⟨ihs, ihn⟩ := ih rest
          constructor
          · have h1 : (tag1 ++ tag2).Sublist (tag1 ++ ws ++ tag2) := by
              rw [List.append_assoc]
              exact List.Sublist.append (List.Sublist.refl _) (List.sublist_append_right _ _)
            exact List.Sublist.append h1 ihs
          · simp only [nonWs, List.filter_append] at ihn ⊢
            have := nonWs_of_ws ws hws
            simp only [nonWs] at this
            rw [this, ihn]; simp
        · obtain ⟨ihs, ihn⟩ := ih t
          exact ⟨List.Sublist.cons_cons _ ihs, by simp only [nonWs, List.filter_cons] at ihn ⊢; rw [ihn]⟩
      · obtain ⟨ihs, ihn⟩ := ih t
        exact ⟨List.Sublist.cons_cons _ ihs, by simp only [nonWs, List.filter_cons] at ihn ⊢; rw [ihn]⟩

theorem spacelessFix_only_deletes_whitespace (fuel : Nat) (s : Bytes) :
    (spacelessFix fuel s).Sublist s ∧ nonWs (spacelessFix fuel s) = nonWs s := by
  induction fuel generalizing s with
  | zero => simp [spacelessFix]
  | succ n ih =>
    unfold spacelessFix
    simp only
    split
    · exact ⟨List.Sublist.refl _, rfl⟩
    · obtain ⟨h1, h2⟩ := ih (spacelessPass (s.length + 1) s)
      obtain ⟨p1, p2⟩ := spacelessPass_only_deletes_whitespace (s.length + 1) s
      exact ⟨h1.trans p1, h2.trans p2⟩


/-- `spaceless` deletes nothing but whitespace -/
theorem spaceless_thins (s : Bytes) : (spaceless s).Sublist s ∧ nonWs (spaceless s) = nonWs s :=
  spacelessFix_only_deletes_whitespace _ _

end Pongo

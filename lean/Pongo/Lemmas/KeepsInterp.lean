/-
  The whole interpreter keeps the frame discipline and never fails with `.panic`:
  one simultaneous induction on the fuel over all functions of the mutual block.
  Expressions (and whatever runs in a context of its own) leave every context as it was
  (`KeepsTop`); statements leave every context below the current one as it was (`Keeps`).
-/
import Pongo.Lemmas.Keeps

namespace Pongo

variable (T : LexTables) (cfg : SetCfg) (g : Env)

/-- evaluating in a copy of another context (macro defaults): the copy is pushed and popped -/
theorem keepsTop_withFrameView {α} (fuel fid : Nat) {m : XM α} (hm : Keeps m) :
    KeepsTop (withFrameView T cfg g fuel fid m) := by
  cases fuel with
  | zero => rw [withFrameView]; exact keepsTop_xerr _ _ (by decide)
  | succ n =>
    rw [withFrameView]
    refine keepsTop_bind (keepsTop_getFrame _) fun fr => ?_
    unfold Keeps at hm
    unfold KeepsTop
    intro σ hσ
    simp only [EStateM.run, bind, EStateM.bind, get, getThe, MonadStateOf.get, EStateM.get, set, MonadStateOf.set, EStateM.set,
      modify, modifyGet, MonadStateOf.modifyGet, EStateM.modifyGet, tryCatch, tryCatchThe, MonadExceptOf.tryCatch, EStateM.tryCatch,
      EStateM.Backtrackable.save, EStateM.Backtrackable.restore, EStateM.dummySave, EStateM.dummyRestore]
    have h1 := hm { σ with frames := fr :: σ.frames } (by simp)
    simp only [EStateM.run] at h1
    cases hr : m { σ with frames := fr :: σ.frames } with
    | ok a σ' =>
      rw [hr] at h1
      simp only [resState, Below, List.tail_cons] at h1
      simp only [pure, EStateM.pure, noPanic, resState, Same, true_and]
      exact h1.2.2
    | error e σ' =>
      rw [hr] at h1
      simp only [noPanic, resState, Below, List.tail_cons] at h1
      simp only [throw, throwThe, MonadExceptOf.throw, EStateM.throw, noPanic, resState, Same]
      exact ⟨h1.1, h1.2.2⟩

/-- every function of the interpreter, at one fuel level -/
structure AllKeeps (fuel : Nat) : Prop where
  eval : ∀ e, KeepsTop (eval T cfg g fuel e)
  evalArrayItems : ∀ es, KeepsTop (evalArrayItems T cfg g fuel es)
  evalList : ∀ es, KeepsTop (evalList T cfg g fuel es)
  applyChain : ∀ c v, KeepsTop (applyChain T cfg g fuel c v)
  resolve : ∀ ps, KeepsTop (resolve T cfg g fuel ps)
  afterPart : ∀ v s c d, KeepsTop (afterPart T cfg g fuel v s c d)
  resolveRest : ∀ ps v s, KeepsTop (resolveRest T cfg g fuel ps v s)
  callFunc : ∀ f args, KeepsTop (callFunc T cfg g fuel f args)
  callMacro : ∀ a b args, KeepsTop (callMacro T cfg g fuel a b args)
  evalDefaults : ∀ ps, KeepsTop (evalDefaults T cfg g fuel ps)
  callSuper : ∀ a b c, KeepsTop (callSuper T cfg g fuel a b c)
  evalPairs : ∀ ps, KeepsTop (evalPairs T cfg g fuel ps)
  applyTagChain : ∀ c v, KeepsTop (applyTagChain T cfg g fuel c v)
  firstof : ∀ es, KeepsTop (firstof T cfg g fuel es)
  executeTpl : ∀ a b, KeepsTop (executeTpl T cfg g fuel a b)
  executeTplUnbuffered : ∀ a b, KeepsTop (executeTplUnbuffered T cfg g fuel a b)
  execNodes : ∀ ns, Keeps (execNodes T cfg g fuel ns)
  execNode : ∀ n, Keeps (execNode T cfg g fuel n)
  ifChain : ∀ a b c, Keeps (ifChain T cfg g fuel a b c)
  forLoop : ∀ a b c d e f h i j, Keeps (forLoop T cfg g fuel a b c d e f h i j)

/-- one step of the decomposition of a `do` block -/
syntax "keeps_step" : tactic
macro_rules
  | `(tactic| keeps_step) => `(tactic| first
      | exact keepsTop_pure _ | exact keepsTop_cur | exact keepsTop_get | exact keepsTop_write _ | exact keepsTop_getFrame _
      | exact keepsTop_liftStep _
      | (apply keepsTop_xerr; decide) | (apply keepsTop_throw; assumption)
      | (apply keepsTop_modify; intro _; rfl)
      | apply keepsTop_buffered | apply keepsTop_withFrame | apply keepsTop_withFrameView
      | apply keepsTop_bind | apply keepsTop_tryCatch
      | exact keeps_pure _ | exact keeps_get | exact keeps_modifyCur _
      | (apply keeps_xerr; decide) | (apply keeps_throw; assumption)
      | (apply KeepsTop.toKeeps; first
          | exact keepsTop_cur | exact keepsTop_write _ | exact keepsTop_getFrame _ | exact keepsTop_liftStep _
          | (apply keepsTop_modify; intro _; rfl)
          | apply keepsTop_withFrame | apply keepsTop_withFrameView)
      | apply keeps_buffered | apply keeps_bind | apply keeps_tryCatch
      | assumption
      | intro _
      | split)

/-- close a goal with the induction hypothesis -/
syntax "keeps_ih" ident : tactic
macro_rules
  | `(tactic| keeps_ih $ih) => `(tactic| first
      | exact AllKeeps.eval $ih _ | exact AllKeeps.evalArrayItems $ih _ | exact AllKeeps.evalList $ih _
      | exact AllKeeps.applyChain $ih _ _ | exact AllKeeps.resolve $ih _ | exact AllKeeps.afterPart $ih _ _ _ _
      | exact AllKeeps.resolveRest $ih _ _ _ | exact AllKeeps.callFunc $ih _ _ | exact AllKeeps.callMacro $ih _ _ _
      | exact AllKeeps.evalDefaults $ih _ | exact AllKeeps.callSuper $ih _ _ _ | exact AllKeeps.execNodes $ih _
      | exact AllKeeps.execNode $ih _ | exact AllKeeps.evalPairs $ih _ | exact AllKeeps.applyTagChain $ih _ _
      | exact AllKeeps.firstof $ih _ | exact AllKeeps.ifChain $ih _ _ _ | exact AllKeeps.forLoop $ih _ _ _ _ _ _ _ _ _
      | exact AllKeeps.executeTpl $ih _ _ | exact AllKeeps.executeTplUnbuffered $ih _ _
      | exact (AllKeeps.eval $ih _).toKeeps | exact (AllKeeps.evalArrayItems $ih _).toKeeps | exact (AllKeeps.evalList $ih _).toKeeps
      | exact (AllKeeps.applyChain $ih _ _).toKeeps | exact (AllKeeps.resolve $ih _).toKeeps | exact (AllKeeps.afterPart $ih _ _ _ _).toKeeps
      | exact (AllKeeps.resolveRest $ih _ _ _).toKeeps | exact (AllKeeps.callFunc $ih _ _).toKeeps | exact (AllKeeps.callMacro $ih _ _ _).toKeeps
      | exact (AllKeeps.evalDefaults $ih _).toKeeps | exact (AllKeeps.callSuper $ih _ _ _).toKeeps
      | exact (AllKeeps.evalPairs $ih _).toKeeps | exact (AllKeeps.applyTagChain $ih _ _).toKeeps
      | exact (AllKeeps.firstof $ih _).toKeeps
      | exact (AllKeeps.executeTpl $ih _ _).toKeeps | exact (AllKeeps.executeTplUnbuffered $ih _ _).toKeeps)

theorem allKeeps_zero : AllKeeps T cfg g 0 := by
  constructor <;> intros <;>
    first
    | (rw [eval]; exact keepsTop_xerr _ _ (by decide))
    | (rw [evalArrayItems]; exact keepsTop_xerr _ _ (by decide))
    | (rw [evalList]; exact keepsTop_xerr _ _ (by decide))
    | (rw [applyChain]; exact keepsTop_xerr _ _ (by decide))
    | (rw [resolve]; exact keepsTop_xerr _ _ (by decide))
    | (rw [afterPart]; exact keepsTop_xerr _ _ (by decide))
    | (rw [resolveRest]; exact keepsTop_xerr _ _ (by decide))
    | (rw [callFunc]; exact keepsTop_xerr _ _ (by decide))
    | (rw [callMacro]; exact keepsTop_xerr _ _ (by decide))
    | (rw [evalDefaults]; exact keepsTop_xerr _ _ (by decide))
    | (rw [callSuper]; exact keepsTop_xerr _ _ (by decide))
    | (rw [evalPairs]; exact keepsTop_xerr _ _ (by decide))
    | (rw [applyTagChain]; exact keepsTop_xerr _ _ (by decide))
    | (rw [firstof]; exact keepsTop_xerr _ _ (by decide))
    | (rw [executeTpl]; exact keepsTop_xerr _ _ (by decide))
    | (rw [executeTplUnbuffered]; exact keepsTop_xerr _ _ (by decide))
    | (rw [execNodes]; exact keeps_xerr _ _ (by decide))
    | (rw [execNode]; exact keeps_xerr _ _ (by decide))
    | (rw [ifChain]; exact keeps_xerr _ _ (by decide))
    | (rw [forLoop]; exact keeps_xerr _ _ (by decide))

end Pongo

/-
  From the sources to the fragment: every template the document parser compiles from opt-out-free
  sources is an opt-out-free tree (`TplOK`), and the world of compiled templates and macros stays
  opt-out-free (`WorldOK`) — also for the templates that `extends`, `include`, `import` and `ssi`
  pull in from the loaders while compiling.

  "Opt-out-free source": none of its identifier tokens is `safe`, `filter` or `off` (so: no `safe`
  filter, no `filter` tag, no `autoescape off`), and its literal text is template text (`L`).

  One induction on the fuel over the document parser (`Model/ParseDoc.lean`), on top of the
  expression parser's (`Lemmas/ParseAll.lean`).
-/
import Pongo.Model.ParseDoc
import Pongo.Lemmas.ParseAll
import Pongo.Lemmas.Clean

namespace Pongo

/-- identifiers an opt-out-free source does not contain -/
def forbidden : List Bytes := [b!"safe", b!"filter", b!"off"]

section
variable (T : LexTables) (cfg : SetCfg) (L : Bytes → Prop)

/-- the tokens of an opt-out-free source -/
structure ToksOK (toks : List Tok) : Prop where
  ident : ∀ t ∈ toks, t.typ = .ident → forbidden.elem t.val = false
  html : ∀ t ∈ toks, t.typ = .html → ∀ tb lb tl tr a b, L (htmlOut tb lb t.val tl tr a b)

def SrcOK (src : Bytes) : Prop := ∀ toks, lex T src = .ok toks → ToksOK L toks

/-- what the set can load is opt-out-free, and its text (also read raw by `ssi`) is template text -/
structure SetupOK : Prop where
  src : ∀ l ∈ cfg.loaders, ∀ kv ∈ l, SrcOK T L kv.2
  raw : ∀ l ∈ cfg.loaders, ∀ kv ∈ l, L kv.2
  tt : ∀ kv ∈ templateTagMapping, L kv.2
  /-- the package default is "on" (the default; `SetAutoescape(false)` is the global opt-out) -/
  autoescape : cfg.autoescape = true

end

/-! ### small facts -/

theorem collectArgs_sub (ts : List Tok) : (∀ t ∈ (collectArgs ts).1, t ∈ ts) ∧ (∀ t ∈ (collectArgs ts).2, t ∈ ts) := by
  induction ts with
  | nil => simp [collectArgs]
  | cons t rest ih =>
    simp only [collectArgs]
    split
    · simp
    · constructor
      · intro x hx
        rcases List.mem_cons.mp hx with h | h
        · subst h; exact List.mem_cons_self
        · exact List.mem_cons_of_mem _ (ih.1 x h)
      · intro x hx
        exact List.mem_cons_of_mem _ (ih.2 x hx)

theorem tryLoaders_found (name : Bytes) (ls : List (List (Bytes × Bytes))) (i : Nat) (log : List (Nat × Bytes)) (src : Bytes)
    (h : (tryLoaders name ls i log).1 = some src) : ∃ l ∈ ls, (name, src) ∈ l := by
  induction ls generalizing i log with
  | nil => simp [tryLoaders] at h
  | cons l rest ih =>
    unfold tryLoaders at h
    split at h
    · rename_i c hc
      simp only [Option.some.injEq] at h
      subst h
      exact ⟨l, List.mem_cons_self, by
        have := List.lookup_eq_some_iff.mp hc
        obtain ⟨l1, l2, hl, _⟩ := this
        rw [hl]; simp⟩
    · obtain ⟨l', hl', hm⟩ := ih _ _ h
      exact ⟨l', List.mem_cons_of_mem _ hl', hm⟩

theorem forbidden_ne {n : Bytes} (h : forbidden.elem n = false) : n ≠ b!"safe" ∧ n ≠ b!"filter" ∧ n ≠ b!"off" := by
  refine ⟨?_, ?_, ?_⟩ <;> intro he <;> subst he <;> revert h <;> decide

section
variable {L : Bytes → Prop}

theorem tplOK_default : TplOK L (default : Tpl) :=
  ⟨(by intro n hn; cases hn), (by intro kv hkv; cases hkv)⟩

theorem macroOK_default : MacroOK L (default : MacroDef) :=
  ⟨(by intro n hn; cases hn), (by intro p hp; cases hp)⟩

theorem forall_push {α} [Inhabited α] {P : α → Prop} {xs : Array α} {x : α} (hd : P default) (h : ∀ i : Nat, P (xs[i]!)) (hx : P x) :
    ∀ i : Nat, P ((xs.push x)[i]!) := by
  intro i
  rw [Array.getElem!_eq_getD, Array.getD_eq_getD_getElem?, Array.getElem?_push]
  split
  · exact hx
  · have := h i
    rwa [Array.getElem!_eq_getD, Array.getD_eq_getD_getElem?] at this

theorem forall_set {α} [Inhabited α] {P : α → Prop} {xs : Array α} {x : α} (k : Nat) (hd : P default) (h : ∀ i : Nat, P (xs[i]!)) (hx : P x) :
    ∀ i : Nat, P ((xs.set! k x)[i]!) := by
  intro i
  rw [Array.set!_eq_setIfInBounds, Array.getElem!_eq_getD, Array.getD_eq_getD_getElem?, Array.getElem?_setIfInBounds]
  split
  · split
    · exact hx
    · exact hd
  · have := h i
    rwa [Array.getElem!_eq_getD, Array.getD_eq_getD_getElem?] at this

end

/-! ### argument parsers: token lists cut out of the document's -/

/-- an argument parser whose tokens all come from the token list `all` of the document -/
def ArgToks (all : List Tok) (a : PS) : Prop := ∃ xs, Good xs a ∧ ∀ t ∈ xs, t ∈ all

theorem ArgToks.ofList {all xs : List Tok} (h : ∀ t ∈ xs, t ∈ all) : ArgToks all (PS.ofList xs) := ⟨xs, Good.ofList xs, h⟩

theorem ArgToks.matchSym {all : List Tok} {a a' : PS} {v : Bytes} (h : ArgToks all a) (hm : a.matchSym v = some a') : ArgToks all a' := by
  obtain ⟨xs, hg, hs⟩ := h; exact ⟨xs, hg.matchSym hm, hs⟩

theorem ArgToks.matchKw {all : List Tok} {a a' : PS} {v : Bytes} (h : ArgToks all a) (hm : a.matchKw v = some a') : ArgToks all a' := by
  obtain ⟨xs, hg, hs⟩ := h; exact ⟨xs, hg.matchKw hm, hs⟩

theorem ArgToks.matchIdentVal {all : List Tok} {a a' : PS} {v : Bytes} (h : ArgToks all a) (hm : a.matchIdentVal v = some a') : ArgToks all a' := by
  obtain ⟨xs, hg, hs⟩ := h; exact ⟨xs, hg.matchIdentVal hm, hs⟩

theorem ArgToks.matchType {all : List Tok} {a a' : PS} {ty : TokTyp} {t : Tok} (h : ArgToks all a) (hm : a.matchType ty = some (t, a')) :
    ArgToks all a' ∧ t ∈ all ∧ t.typ = ty := by
  obtain ⟨xs, hg, hs⟩ := h
  obtain ⟨h1, h2, h3⟩ := hg.matchType hm
  exact ⟨⟨xs, h1, hs⟩, hs t h2, h3⟩

section
variable {cfg : SetCfg} {L : Bytes → Prop} {all : List Tok}

/-- an expression parsed from argument tokens of an opt-out-free document is opt-out-free -/
theorem parseExpression_args (htok : ToksOK L all) (fuel : Nat) (a : PS) (ha : ArgToks all a) :
    POK (fun r => ExprOK r.1 ∧ ArgToks all r.2) (parseExpression cfg fuel a) := by
  obtain ⟨xs, hg, hs⟩ := ha
  have := (allParse cfg xs (Q := fun n => n ≠ b!"safe") (fun n hn => by
    obtain ⟨_, _, t, ht, hty, hv⟩ := hn
    exact hv ▸ (forbidden_ne (htok.ident t (hs t ht) hty)).1) fuel).parseExpression a hg
  exact pok_mono this fun r hr => ⟨hr.1, xs, hr.2, hs⟩

/-- the same for an expression written in the document itself (`{{ … }}`) -/
theorem parseExpression_doc (htok : ToksOK L all) (fuel : Nat) (p : PS) (hp : Good all p) :
    POK (fun r => ExprOK r.1 ∧ Good all r.2) (parseExpression cfg fuel p) :=
  (allParse cfg all (Q := fun n => n ≠ b!"safe") (fun n hn => by
    obtain ⟨_, _, t, ht, hty, hv⟩ := hn
    exact hv ▸ (forbidden_ne (htok.ident t ht hty)).1) fuel).parseExpression p hp

theorem snoc_all {α} {P : α → Prop} {xs : List α} {x : α} (h : ∀ y ∈ xs, P y) (hx : P x) : ∀ y ∈ xs ++ [x], P y := by
  intro y hy
  rcases List.mem_append.mp hy with h1 | h1
  · exact h y h1
  · simp only [List.mem_singleton] at h1
    subst h1
    exact hx

theorem exprList_ok (htok : ToksOK L all) : ∀ (fuel : Nat) (acc : List Expr) (a : PS), (∀ e ∈ acc, ExprOK e) → ArgToks all a →
    POK (fun r => (∀ e ∈ r.1, ExprOK e) ∧ ArgToks all r.2) (exprList cfg fuel acc a)
  | 0, _, _, _, _ => by rw [exprList]; exact pok_error _
  | n + 1, acc, a, hacc, ha => by
    rw [exprList]
    split
    · exact pok_pure ⟨hacc, ha⟩
    · refine pok_bind (parseExpression_args htok n a ha) fun r hr => ?_
      exact exprList_ok htok n _ _ (snoc_all hacc hr.1) hr.2

theorem cycleArgs_ok (htok : ToksOK L all) : ∀ (fuel : Nat) (acc : List Expr) (a : PS), (∀ e ∈ acc, ExprOK e) → ArgToks all a →
    POK (fun r => (∀ e ∈ r.1, ExprOK e) ∧ ArgToks all r.2.2.2) (cycleArgs cfg fuel acc a)
  | 0, _, _, _, _ => by rw [cycleArgs]; exact pok_error _
  | n + 1, acc, a, hacc, ha => by
    rw [cycleArgs]
    split
    · exact pok_pure ⟨hacc, ha⟩
    · refine pok_bind (parseExpression_args htok n a ha) fun r hr => ?_
      obtain ⟨e, a1⟩ := r
      simp only []
      split
      · rename_i a2 hm
        split
        · exact pok_error _
        · rename_i nm a3 hm2
          have h3 := ((hr.2.matchKw hm).matchType hm2).1
          split
          · rename_i a4 hm3
            exact pok_pure ⟨snoc_all hacc hr.1, h3.matchIdentVal hm3⟩
          · exact pok_pure ⟨snoc_all hacc hr.1, h3⟩
      · exact cycleArgs_ok htok n _ _ (snoc_all hacc hr.1) hr.2

theorem filter_snoc {acc : List (Bytes × Expr)} {k : Bytes} {e : Expr} (hacc : ∀ p ∈ acc, ExprOK p.2) (he : ExprOK e) :
    ∀ p ∈ (acc.filter (·.1 != k)) ++ [(k, e)], ExprOK p.2 :=
  snoc_all (fun p hp => hacc p (List.mem_filter.mp hp).1) he

theorem includePairs_ok (htok : ToksOK L all) : ∀ (fuel : Nat) (acc : List (Bytes × Expr)) (a : PS), (∀ p ∈ acc, ExprOK p.2) → ArgToks all a →
    POK (fun r => (∀ p ∈ r.1, ExprOK p.2) ∧ ArgToks all r.2.2) (includePairs cfg fuel acc a)
  | 0, _, _, _, _ => by rw [includePairs]; exact pok_error _
  | n + 1, acc, a, hacc, ha => by
    rw [includePairs]
    split
    · exact pok_pure ⟨hacc, ha⟩
    · split
      · exact pok_error _
      · rename_i k a1 hm
        split
        · exact pok_error _
        · rename_i a2 hm2
          refine pok_bind (parseExpression_args htok n a2 ((ha.matchType hm).1.matchSym hm2)) fun r hr => ?_
          obtain ⟨e, a3⟩ := r
          simp only []
          split
          · rename_i a4 hm3
            exact pok_pure ⟨filter_snoc hacc hr.1, hr.2.matchIdentVal hm3⟩
          · exact includePairs_ok htok n _ _ (filter_snoc hacc hr.1) hr.2

theorem withPairs_ok (htok : ToksOK L all) : ∀ (fuel : Nat) (old : Bool) (acc : List (Bytes × Expr)) (a : PS), (∀ p ∈ acc, ExprOK p.2) → ArgToks all a →
    POK (fun r => ∀ p ∈ r, ExprOK p.2) (withPairs cfg fuel old acc a)
  | 0, _, _, _, _, _ => by rw [withPairs]; exact pok_error _
  | n + 1, old, acc, a, hacc, ha => by
    rw [withPairs]
    split
    · exact pok_pure hacc
    · split
      · refine pok_bind (parseExpression_args htok n a ha) fun r hr => ?_
        obtain ⟨e, a1⟩ := r
        simp only []
        split
        · exact pok_error _
        · rename_i a2 hm
          split
          · exact pok_error _
          · rename_i k a3 hm2
            exact withPairs_ok htok n _ _ _ (filter_snoc hacc hr.1) ((hr.2.matchKw hm).matchType hm2).1
      · split
        · exact pok_error _
        · rename_i k a1 hm
          split
          · exact pok_error _
          · rename_i a2 hm2
            refine pok_bind (parseExpression_args htok n a2 ((ha.matchType hm).1.matchSym hm2)) fun r hr => ?_
            exact withPairs_ok htok n _ _ _ (filter_snoc hacc hr.1) hr.2

end

section
variable {cfg : SetCfg} {L : Bytes → Prop} {all : List Tok}

theorem macroParams_ok (htok : ToksOK L all) : ∀ (fuel : Nat) (acc : List (Bytes × Option Expr)) (a : PS),
    (∀ p ∈ acc, ∀ e, p.2 = some e → ExprOK e) → ArgToks all a →
    POK (fun r => (∀ p ∈ r.1, ∀ e, p.2 = some e → ExprOK e) ∧ ArgToks all r.2) (macroParams cfg fuel acc a)
  | 0, _, _, _, _ => by rw [macroParams]; exact pok_error _
  | n + 1, acc, a, hacc, ha => by
    rw [macroParams]
    split
    · rename_i a1 hm
      exact pok_pure ⟨hacc, ha.matchSym hm⟩
    · split
      · exact pok_error _
      · rename_i nm a1 hm
        have ha1 := (ha.matchType hm).1
        have hd : POK (fun r : Option Expr × PS => (∀ e, r.1 = some e → ExprOK e) ∧ ArgToks all r.2)
            (match a1.matchSym b!"=" with
              | some a => do
                let (e, a) ← parseExpression cfg n a
                pure (some e, a)
              | none => pure (none, a1) : PM (Option Expr × PS)) := by
          split
          · rename_i a2 hm2
            refine pok_bind (parseExpression_args htok n a2 (ha1.matchSym hm2)) fun r hr => ?_
            exact pok_pure ⟨(by intro e he; cases he; exact hr.1), hr.2⟩
          · exact pok_pure ⟨(by intro e he; cases he), ha1⟩
        refine pok_bind hd fun r hr => ?_
        obtain ⟨dflt, a2⟩ := r
        simp only []
        have hacc' : ∀ p ∈ acc ++ [(nm.val, dflt)], ∀ e, p.2 = some e → ExprOK e := snoc_all hacc hr.1
        split
        · rename_i a3 hm3
          exact pok_pure ⟨hacc', hr.2.matchSym hm3⟩
        · split
          · rename_i a3 hm3
            exact macroParams_ok htok n _ _ hacc' (hr.2.matchSym hm3)
          · exact pok_error _

end


theorem skipToClose_sub : ∀ (ts : List Tok) (c : Tok) (rest : List Tok), skipToClose ts = some (c, rest) → ∀ t ∈ rest, t ∈ ts
  | [], _, _, h => by simp [skipToClose] at h
  | t :: tl, c, rest, h => by
    unfold skipToClose at h
    split at h
    · cases h
      intro x hx
      exact List.mem_cons_of_mem _ hx
    · split at h
      · cases h
      · intro x hx
        exact List.mem_cons_of_mem _ (skipToClose_sub tl c rest h x hx)

theorem skipUntil_sub (names : List Bytes) : ∀ (ts : List Tok) (c : Tok) (rest : List Tok), skipUntil names ts = some (c, rest) → ∀ t ∈ rest, t ∈ ts
  | [], _, _, h => by simp [skipUntil] at h
  | t :: tl, c, rest, h => by
    unfold skipUntil at h
    intro x hx
    split at h
    · split at h
      · rename_i id rest' 
        split at h
        · exact List.mem_cons_of_mem _ (List.mem_cons_of_mem _ (skipToClose_sub rest' c rest h x hx))
        · exact List.mem_cons_of_mem _ (skipUntil_sub names _ c rest h x hx)
      · exact List.mem_cons_of_mem _ (skipUntil_sub names _ c rest h x hx)
    · exact List.mem_cons_of_mem _ (skipUntil_sub names _ c rest h x hx)

theorem ArgToks.optIdent {all : List Tok} {a : PS} (v : Bytes) (h : ArgToks all a) : ArgToks all (a.optIdent v).2 := by
  unfold PS.optIdent
  split
  · rename_i a' hm; exact h.matchIdentVal hm
  · exact h

theorem ArgToks.optKw {all : List Tok} {a : PS} (v : Bytes) (h : ArgToks all a) : ArgToks all (a.optKw v).2 := by
  unfold PS.optKw
  split
  · rename_i a' hm; exact h.matchKw hm
  · exact h

theorem lookupB_mem {α} (xs : List (Bytes × α)) (k : Bytes) (v : α) (h : xs.lookup k = some v) : (k, v) ∈ xs := by
  obtain ⟨l1, l2, hl, _⟩ := List.lookup_eq_some_iff.mp h
  rw [hl]; simp

/-! ### the document parser -/

section
variable (T : LexTables) (cfg : SetCfg) (L : Bytes → Prop)

/-- what the document parser keeps true of its state: it stays inside the document's token list,
    everything compiled so far is opt-out-free, and so are the block bodies collected so far -/
structure DInv (all : List Tok) (ds : DS) : Prop where
  good : Good all ds.doc
  world : WorldOK L ds.cs
  blocks : ∀ kv ∈ ds.ts.blocks, NodesOK L kv.2

/-- the functions of the document parser, at one fuel level -/
structure AllDoc (fuel : Nat) : Prop where
  compileTpl : ∀ cs name isStr src, WorldOK L cs → SrcOK T L src →
    POK (fun r => WorldOK L r.2) (compileTpl T cfg fuel cs name isStr src)
  fromFile : ∀ cs name, WorldOK L cs → POK (fun r => WorldOK L r.2) (fromFile T cfg fuel cs name)
  parseDocument : ∀ all acc prev ds, ToksOK L all → NodesOK L acc → DInv L all ds →
    POK (fun r => NodesOK L r.1 ∧ DInv L all r.2) (parseDocument T cfg fuel acc prev ds)
  parseDocElement : ∀ all prev ds, ToksOK L all → DInv L all ds →
    POK (fun r => NodeOK L r.1 ∧ DInv L all r.2.2) (parseDocElement T cfg fuel prev ds)
  parseTag : ∀ all ds, ToksOK L all → DInv L all ds →
    POK (fun r => NodeOK L r.1 ∧ DInv L all r.2.2) (parseTag T cfg fuel ds)
  wrapUntil : ∀ all names acc prev ds, ToksOK L all → NodesOK L acc → DInv L all ds →
    POK (fun r => NodesOK L r.1 ∧ ArgToks all r.2.2.1 ∧ DInv L all r.2.2.2.2) (wrapUntil T cfg fuel names acc prev ds)
  tagParser : ∀ all start close args ds, ToksOK L all → start ∈ all → start.typ = .ident → ArgToks all args → DInv L all ds →
    POK (fun r => NodeOK L r.1 ∧ DInv L all r.2.2) (tagParser T cfg fuel start close args ds)
  ifBranches : ∀ all conds bodies prev ds, ToksOK L all → (∀ c ∈ conds, ExprOK c) → (∀ b ∈ bodies, NodesOK L b) → DInv L all ds →
    POK (fun r => NodeOK L r.1 ∧ DInv L all r.2.2) (ifBranches T cfg fuel conds bodies prev ds)

theorem allDoc_zero : AllDoc T cfg L 0 := by
  constructor <;> intros <;>
    first
    | (rw [compileTpl]; exact pok_error _)
    | (rw [fromFile]; exact pok_error _)
    | (rw [parseDocument]; exact pok_error _)
    | (rw [parseDocElement]; exact pok_error _)
    | (rw [parseTag]; exact pok_error _)
    | (rw [wrapUntil]; exact pok_error _)
    | (rw [tagParser]; exact pok_error _)
    | (rw [ifBranches]; exact pok_error _)

end

section steps
variable {T : LexTables} {cfg : SetCfg} {L : Bytes → Prop} (hS : SetupOK T cfg L) {n : Nat} (ih : AllDoc T cfg L n)
include ih

theorem compileTpl_succ (cs : CState) (name : Bytes) (isStr : Bool) (src : Bytes) (hw : WorldOK L cs) (hsrc : SrcOK T L src) :
    POK (fun r => WorldOK L r.2) (compileTpl T cfg (n + 1) cs name isStr src) := by
  rw [compileTpl]
  split
  · exact pok_error _
  · exact pok_error _
  · rename_i toks hlex
    simp only []
    have htok := hsrc toks hlex
    refine pok_bind (ih.parseDocument toks [] none _ htok (by intro x hx; cases hx)
      ⟨Good.ofList toks, ⟨forall_push tplOK_default hw.1 ⟨(by intro x hx; cases hx), (by intro kv hkv; cases hkv)⟩, hw.2⟩,
        (by intro kv hkv; cases hkv)⟩) fun r hr => ?_
    exact pok_pure ⟨forall_set _ tplOK_default hr.2.world.1 ⟨hr.1, hr.2.blocks⟩, hr.2.world.2⟩

include hS in
theorem fromFile_succ (cs : CState) (name : Bytes) (hw : WorldOK L cs) :
    POK (fun r => WorldOK L r.2) (fromFile T cfg (n + 1) cs name) := by
  rw [fromFile]
  simp only []
  split
  · exact pok_error _
  · rename_i src hf
    obtain ⟨l, hl, hm⟩ := tryLoaders_found _ _ _ _ _ hf
    exact ih.compileTpl _ _ _ _ ⟨hw.1, hw.2⟩ (hS.src l hl _ hm)

theorem parseDocument_succ (all : List Tok) (acc : List Node) (prev : Option Tok) (ds : DS) (htok : ToksOK L all)
    (hacc : NodesOK L acc) (hd : DInv L all ds) :
    POK (fun r => NodesOK L r.1 ∧ DInv L all r.2) (parseDocument T cfg (n + 1) acc prev ds) := by
  rw [parseDocument]
  split
  · exact pok_pure ⟨hacc, hd⟩
  · refine pok_bind (ih.parseDocElement all prev ds htok hd) fun r hr => ?_
    exact ih.parseDocument all _ _ _ htok (snoc_all hacc hr.1) hr.2

theorem parseDocElement_succ (all : List Tok) (prev : Option Tok) (ds : DS) (htok : ToksOK L all) (hd : DInv L all ds) :
    POK (fun r => NodeOK L r.1 ∧ DInv L all r.2.2) (parseDocElement T cfg (n + 1) prev ds) := by
  rw [parseDocElement.eq_def]
  simp only []
  split
  · exact pok_error _
  · rename_i t rest hts
    have ht : t ∈ all := hd.good.hsub t (by rw [hts]; exact List.mem_cons_self)
    split
    · rename_i hty
      exact pok_pure ⟨NodeOK.html _ _ _ _ _ _ (fun tb lb => htok.html t ht hty tb lb _ _ _ _), ⟨hd.good.adv, hd.world, hd.blocks⟩⟩
    · split
      · refine pok_bind (parseExpression_doc htok n _ hd.good.adv) fun r hr => ?_
        obtain ⟨e, p⟩ := r
        simp only []
        split
        · split
          · exact pok_pure ⟨NodeOK.var _ _ hr.1, ⟨hr.2.adv, hd.world, hd.blocks⟩⟩
          · exact pok_error _
        · exact pok_error _
      · split
        · exact ih.parseTag all _ htok ⟨hd.good.adv, hd.world, hd.blocks⟩
        · exact pok_error _
    · exact pok_error _

theorem parseTag_succ (all : List Tok) (ds : DS) (htok : ToksOK L all) (hd : DInv L all ds) :
    POK (fun r => NodeOK L r.1 ∧ DInv L all r.2.2) (parseTag T cfg (n + 1) ds) := by
  rw [parseTag]
  split
  · exact pok_error _
  · rename_i nameTok p hm
    obtain ⟨hp, hname, htyp⟩ := hd.good.matchType hm
    split
    · exact pok_error _
    · split
      · exact pok_error _
      · simp only []
        split
        · exact pok_error _
        · rename_i close restDoc hr2
          split
          · exact pok_error _
          · have hsub := collectArgs_sub p.ts
            have hrest : ∀ t ∈ restDoc, t ∈ all := fun t ht =>
              hp.hsub t (hsub.2 t (by rw [hr2]; exact List.mem_cons_of_mem _ ht))
            refine pok_bind (ih.tagParser all nameTok close _ _ htok hname htyp
              (ArgToks.ofList fun t ht => hp.hsub t (hsub.1 t ht))
              ⟨⟨hp.hall, hrest⟩, hd.world, hd.blocks⟩) fun r hr => ?_
            exact pok_pure ⟨hr.1, ⟨hr.2.good, hr.2.world, hr.2.blocks⟩⟩

theorem wrapUntil_succ (all : List Tok) (names : List Bytes) (acc : List Node) (prev : Option Tok) (ds : DS) (htok : ToksOK L all)
    (hacc : NodesOK L acc) (hd : DInv L all ds) :
    POK (fun r => NodesOK L r.1 ∧ ArgToks all r.2.2.1 ∧ DInv L all r.2.2.2.2) (wrapUntil T cfg (n + 1) names acc prev ds) := by
  rw [wrapUntil]
  split
  · exact pok_error _
  · rename_i t rest hts
    simp only []
    split
    · rename_i id rest' hend
      have hrest' : ∀ x ∈ rest', x ∈ rest := by
        split at hend
        · split at hend
          · split at hend
            · cases hend
              intro x hx
              exact List.mem_cons_of_mem _ hx
            · cases hend
          · cases hend
        · cases hend
      have hsub := collectArgs_sub rest'
      split
      · exact pok_error _
      · rename_i close restDoc hr2
        have hin : ∀ x ∈ rest', x ∈ all := fun x hx => hd.good.hsub x (by rw [hts]; exact List.mem_cons_of_mem _ (hrest' x hx))
        exact pok_pure ⟨hacc, ArgToks.ofList fun x hx => hin x (hsub.1 x hx),
          ⟨⟨hd.good.hall, fun x hx => hin x (hsub.2 x (by rw [hr2]; exact List.mem_cons_of_mem _ hx))⟩, hd.world, hd.blocks⟩⟩
    · refine pok_bind (ih.parseDocElement all prev ds htok hd) fun r hr => ?_
      exact ih.wrapUntil all _ _ _ _ htok (snoc_all hacc hr.1) hr.2

theorem ifBranches_succ (all : List Tok) (conds : List Expr) (bodies : List (List Node)) (prev : Option Tok) (ds : DS)
    (htok : ToksOK L all) (hc : ∀ c ∈ conds, ExprOK c) (hb : ∀ b ∈ bodies, NodesOK L b) (hd : DInv L all ds) :
    POK (fun r => NodeOK L r.1 ∧ DInv L all r.2.2) (ifBranches T cfg (n + 1) conds bodies prev ds) := by
  rw [ifBranches]
  refine pok_bind (ih.wrapUntil all _ [] prev ds htok (by intro x hx; cases hx) hd) fun r hr => ?_
  obtain ⟨body, endtag, tagArgs, last, ds1⟩ := r
  simp only []
  have hb' : ∀ b ∈ bodies ++ [body], NodesOK L b := snoc_all hb hr.1
  split
  · exact pok_error _
  split
  · refine pok_bind (parseExpression_args htok n tagArgs hr.2.1) fun r2 hr2 => ?_
    obtain ⟨c, ta⟩ := r2
    simp only []
    split
    · exact pok_error _
    · exact ih.ifBranches all _ _ _ _ htok (snoc_all hc hr2.1) hb' hr.2.2
  · split
    · exact pok_error _
    · split
      · exact pok_pure ⟨NodeOK.tagIf _ _ hc hb', hr.2.2⟩
      · exact ih.ifBranches all _ _ _ _ htok hc hb' hr.2.2

end steps

section tagstep
variable {T : LexTables} {cfg : SetCfg} {L : Bytes → Prop} (hS : SetupOK T cfg L) {n : Nat} (ih : AllDoc T cfg L n)
include ih hS

theorem tagParser_succ (all : List Tok) (start close : Tok) (args : PS) (ds : DS) (htok : ToksOK L all) (hstart : start ∈ all)
    (hty : start.typ = .ident) (ha : ArgToks all args) (hd : DInv L all ds) :
    POK (fun r => NodeOK L r.1 ∧ DInv L all r.2.2) (tagParser T cfg (n + 1) start close args ds) := by
  have hforb := forbidden_ne (htok.ident start hstart hty)
  have nilN : NodesOK L [] := by intro x hx; cases hx
  unfold tagParser
  by_cases h : (start.val == b!"autoescape") = true
  · -- autoescape
    rw [if_pos h]
    refine pok_bind (ih.wrapUntil all _ [] (some close) ds htok nilN hd) fun r hr => ?_
    obtain ⟨body, e1, e2, last, ds1⟩ := r
    simp only []
    split
    · exact pok_error _
    · rename_i m args1 hm
      obtain ⟨ha1, hmem, hmty⟩ := ha.matchType hm
      have hoff := (forbidden_ne (htok.ident m hmem hmty)).2.2
      split
      · exact pok_error _
      · rename_i hcond
        split
        · exact pok_error _
        · have hon : (m.val == b!"on") = true := by
            by_cases h1 : m.val = b!"on"
            · simp [h1]
            · exfalso; apply hcond; simp [h1, hoff]
          rw [hon]
          exact pok_pure ⟨NodeOK.tagAutoescape body hr.1, hr.2.2⟩
  rw [if_neg h]; clear h
  by_cases h : (start.val == b!"block") = true
  · rw [if_pos h]
    split
    · exact pok_error _
    · split
      · exact pok_error _
      · rename_i nameTok args' hm
        split
        · exact pok_error _
        · refine pok_bind (ih.wrapUntil all _ [] (some close) ds htok nilN hd) fun r hr => ?_
          obtain ⟨body, e1, endargs, last, ds1⟩ := r
          simp only []
          refine pok_bind (P := fun _ => True) (fun _ _ => trivial) fun _ _ => ?_
          split
          · exact pok_error _
          · exact pok_pure ⟨NodeOK.tagBlock _, ⟨hr.2.2.good, hr.2.2.world, snoc_all hr.2.2.blocks hr.1⟩⟩
  rw [if_neg h]; clear h
  by_cases h : (start.val == b!"comment") = true
  · rw [if_pos h]
    split
    · exact pok_error _
    · rename_i closeTok rest hsk
      split
      · exact pok_error _
      · exact pok_pure ⟨NodeOK.tagComment, ⟨⟨hd.good.hall, fun t ht => hd.good.hsub t (skipUntil_sub _ _ _ _ hsk t ht)⟩, hd.world, hd.blocks⟩⟩
  rw [if_neg h]; clear h
  by_cases h : (start.val == b!"cycle") = true
  · rw [if_pos h]
    refine pok_bind (cycleArgs_ok htok n [] args (by intro e he; cases he) ha) fun r hr => ?_
    obtain ⟨es, asName, silent, args1⟩ := r
    simp only []
    split
    · exact pok_error _
    · split
      · exact pok_error _
      · exact pok_pure ⟨NodeOK.tagCycle _ _ _ _ hr.1, ⟨hd.good, ⟨hd.world.1, hd.world.2⟩, hd.blocks⟩⟩
  rw [if_neg h]; clear h
  by_cases h : (start.val == b!"extends") = true
  · rw [if_pos h]
    split
    · exact pok_error _
    · split
      · exact pok_error _
      · split
        · exact pok_error _
        · rename_i f args1 hm
          refine pok_bind (ih.fromFile ds.cs _ hd.world) fun r hr => ?_
          obtain ⟨pi, cs⟩ := r
          simp only []
          split
          · exact pok_error _
          · exact pok_pure ⟨NodeOK.tagExtends, ⟨hd.good, hr, hd.blocks⟩⟩
  rw [if_neg h]; clear h
  by_cases h : (start.val == b!"filter") = true
  · exact absurd (by simpa using h) hforb.2.1
  rw [if_neg h]; clear h
  by_cases h : (start.val == b!"firstof") = true
  · rw [if_pos h]
    refine pok_bind (exprList_ok htok n [] args (by intro e he; cases he) ha) fun r hr => ?_
    exact pok_pure ⟨NodeOK.tagFirstof _ hr.1, hd⟩
  rw [if_neg h]; clear h
  by_cases h : (start.val == b!"for") = true
  · rw [if_pos h]
    split
    · exact pok_error _
    · rename_i keyTok args1 hm
      have ha1 := (ha.matchType hm).1
      have hv : POK (fun r : Bytes × PS => ArgToks all r.2)
          (match args1.matchSym b!"," with
            | some a =>
              (match a.matchType .ident with
                | some (v, a) => pure (v.val, a)
                | none => .error (a.err "Value name must be an identifier."))
            | none => pure ([], args1) : PM (Bytes × PS)) := by
        split
        · rename_i a hm2
          split
          · rename_i v a2 hm3
            exact pok_pure ((ha1.matchSym hm2).matchType hm3).1
          · exact pok_error _
        · exact pok_pure ha1
      refine pok_bind hv fun r hr => ?_
      obtain ⟨valName, args2⟩ := r
      simp only []
      split
      · exact pok_error _
      · rename_i args3 hm4
        refine pok_bind (parseExpression_args htok n args3 (ArgToks.matchKw hr hm4)) fun r2 hr2 => ?_
        obtain ⟨obj, args4⟩ := r2
        simp only []
        have h5 := ArgToks.optIdent b!"reversed" hr2.2
        generalize args4.optIdent b!"reversed" = x5 at h5 ⊢
        obtain ⟨rev, args5⟩ := x5
        simp only [] at h5 ⊢
        have h6 := ArgToks.optIdent b!"sorted" h5
        generalize args5.optIdent b!"sorted" = x6 at h6 ⊢
        obtain ⟨srt, args6⟩ := x6
        simp only [] at h6 ⊢
        split
        · exact pok_error _
        · refine pok_bind (ih.wrapUntil all _ [] (some close) ds htok nilN hd) fun r3 hr3 => ?_
          obtain ⟨body, endtag, endargs, last, ds1⟩ := r3
          simp only []
          split
          · exact pok_error _
          · split
            · refine pok_bind (ih.wrapUntil all _ [] last ds1 htok nilN hr3.2.2) fun r4 hr4 => ?_
              obtain ⟨eb, e2, endargs2, last2, ds2⟩ := r4
              simp only []
              split
              · exact pok_error _
              · exact pok_pure ⟨NodeOK.tagFor _ _ _ _ _ _ _ hr2.1 hr3.1 (by intro eb' he; cases he; exact hr4.1), hr4.2.2⟩
            · exact pok_pure ⟨NodeOK.tagFor _ _ _ _ _ _ _ hr2.1 hr3.1 (by intro eb' he; cases he), hr3.2.2⟩
  rw [if_neg h]; clear h
  by_cases h : (start.val == b!"if") = true
  · rw [if_pos h]
    refine pok_bind (parseExpression_args htok n args ha) fun r hr => ?_
    obtain ⟨c, args1⟩ := r
    simp only []
    split
    · exact pok_error _
    · exact ih.ifBranches all _ _ _ _ htok (by intro x hx; simp only [List.mem_singleton] at hx; subst hx; exact hr.1)
        (by intro b hb; cases hb) hd
  rw [if_neg h]; clear h
  by_cases h : (start.val == b!"ifchanged") = true
  · rw [if_pos h]
    refine pok_bind (exprList_ok htok n [] args (by intro e he; cases he) ha) fun r hr => ?_
    obtain ⟨es, args1⟩ := r
    simp only []
    split
    · exact pok_error _
    · refine pok_bind (ih.wrapUntil all _ [] (some close) ds htok nilN hd) fun r3 hr3 => ?_
      obtain ⟨tb, endtag, endargs, last, ds1⟩ := r3
      simp only []
      split
      · exact pok_error _
      · have hd1 : DInv L all { ds1 with cs := { ds1.cs with nextId := ds1.cs.nextId + 1 } } :=
          ⟨hr3.2.2.good, ⟨hr3.2.2.world.1, hr3.2.2.world.2⟩, hr3.2.2.blocks⟩
        split
        · refine pok_bind (ih.wrapUntil all _ [] last _ htok nilN hd1) fun r4 hr4 => ?_
          obtain ⟨eb, e2, endargs2, last2, ds2⟩ := r4
          simp only []
          split
          · exact pok_error _
          · exact pok_pure ⟨NodeOK.tagIfchanged _ _ _ _ hr.1 hr3.1 (by intro eb' he; cases he; exact hr4.1), hr4.2.2⟩
        · exact pok_pure ⟨NodeOK.tagIfchanged _ _ _ _ hr.1 hr3.1 (by intro eb' he; cases he), hd1⟩
  rw [if_neg h]; clear h
  by_cases h : (start.val == b!"ifequal" || start.val == b!"ifnotequal") = true
  · rw [if_pos h]
    simp only []
    refine pok_bind (parseExpression_args htok n args ha) fun r hr => ?_
    obtain ⟨a, args1⟩ := r
    simp only []
    refine pok_bind (parseExpression_args htok n args1 hr.2) fun r2 hr2 => ?_
    obtain ⟨c, args2⟩ := r2
    simp only []
    split
    · exact pok_error _
    · refine pok_bind (ih.wrapUntil all _ [] (some close) ds htok nilN hd) fun r3 hr3 => ?_
      obtain ⟨tb, endtag, endargs, last, ds1⟩ := r3
      simp only []
      have hmk : ∀ e : Option (List Node), (∀ eb, e = some eb → NodesOK L eb) →
          NodeOK L (if (start.val == b!"ifequal") = true then Node.tagIfEqual a c tb e else Node.tagIfNotEqual a c tb e) := by
        intro e he
        split
        · exact NodeOK.tagIfEqual _ _ _ _ hr.1 hr2.1 hr3.1 he
        · exact NodeOK.tagIfNotEqual _ _ _ _ hr.1 hr2.1 hr3.1 he
      split
      · exact pok_error _
      · split
        · refine pok_bind (ih.wrapUntil all _ [] last ds1 htok nilN hr3.2.2) fun r4 hr4 => ?_
          obtain ⟨eb, e2, endargs2, last2, ds2⟩ := r4
          simp only []
          split
          · exact pok_error _
          · exact pok_pure ⟨hmk _ (by intro eb' he; cases he; exact hr4.1), hr4.2.2⟩
        · exact pok_pure ⟨hmk _ (by intro eb' he; cases he), hr3.2.2⟩
  rw [if_neg h]; clear h
  by_cases h : (start.val == b!"import") = true
  · rw [if_pos h]
    split
    · exact pok_error _
    · rename_i f args1 hm
      simp only []
      split
      · exact pok_error _
      · refine pok_bind (ih.fromFile ds.cs _ hd.world) fun r hr => ?_
        obtain ⟨ti, cs⟩ := r
        simp only []
        refine pok_bind (P := fun _ => True) (fun _ _ => trivial) fun binds _ => ?_
        exact pok_pure ⟨NodeOK.tagImport _, ⟨hd.good, hr, hd.blocks⟩⟩
  rw [if_neg h]; clear h
  by_cases h : (start.val == b!"include") = true
  · rw [if_pos h]
    refine pok_bind (P := fun r : IncludeSrc × PS × DS =>
      (∀ e ie ref, r.1 = .lazy e ie ref → ExprOK e) ∧ ArgToks all r.2.1 ∧ DInv L all r.2.2) ?_ fun r hr => ?_
    · split
      · rename_i f args1 hm
        have h1 := ArgToks.optIdent b!"if_exists" (ha.matchType hm).1
        generalize args1.optIdent b!"if_exists" = x at h1 ⊢
        obtain ⟨ifExists, args2⟩ := x
        simp only [] at h1 ⊢
        split
        · rename_i ti cs hff
          have hw := ih.fromFile ds.cs _ hd.world _ hff
          exact pok_pure ⟨(by intro e ie ref he; cases he), h1, ⟨hd.good, hw, hd.blocks⟩⟩
        · split
          · exact pok_pure ⟨(by intro e ie ref he; cases he), h1, ⟨hd.good, ⟨hd.world.1, hd.world.2⟩, hd.blocks⟩⟩
          · exact pok_error _
      · refine pok_bind (parseExpression_args htok n args ha) fun r hr => ?_
        obtain ⟨e, args1⟩ := r
        simp only []
        have h1 := ArgToks.optIdent b!"if_exists" hr.2
        generalize args1.optIdent b!"if_exists" = x at h1 ⊢
        obtain ⟨ifExists, args2⟩ := x
        simp only [] at h1 ⊢
        exact pok_pure ⟨(by intro e' ie ref he; cases he; exact hr.1), h1, hd⟩
    · obtain ⟨src, args1, ds1⟩ := r
      simp only []
      split
      · exact pok_pure ⟨NodeOK.tagIncludeEmpty _ _, hr.2.2⟩
      · refine pok_bind (P := fun r : List (Bytes × Expr) × Bool × PS => (∀ p ∈ r.1, ExprOK p.2) ∧ ArgToks all r.2.2) ?_ fun r2 hr2 => ?_
        · split
          · rename_i args2 hm
            exact includePairs_ok htok n [] args2 (by intro p hp; cases hp) (hr.2.1.matchIdentVal hm)
          · exact pok_pure ⟨(by intro p hp; cases hp), hr.2.1⟩
        · obtain ⟨pairs, only, args2⟩ := r2
          simp only []
          split
          · exact pok_error _
          · refine pok_pure ⟨?_, hr.2.2⟩
            cases src with
            | static ti => exact NodeOK.tagIncludeStatic _ _ _ hr2.1
            | empty => exact NodeOK.tagIncludeEmpty _ _
            | lazy e ie ref => exact NodeOK.tagIncludeLazy _ _ _ _ _ (hr.1 e ie ref rfl) hr2.1
  rw [if_neg h]; clear h
  by_cases h : (start.val == b!"lorem") = true
  · rw [if_pos h]
    intro r hr
    repeat' (split at hr)
    all_goals first
      | (cases hr; exact ⟨NodeOK.tagLorem _ _ _ _, hd⟩)
      | cases hr
  rw [if_neg h]; clear h
  by_cases h : (start.val == b!"macro") = true
  · rw [if_pos h]
    split
    · exact pok_error _
    · rename_i nameTok args1 hm
      split
      · exact pok_error _
      · rename_i args2 hm2
        refine pok_bind (macroParams_ok htok n [] args2 (by intro p hp; cases hp) ((ha.matchType hm).1.matchSym hm2)) fun r hr => ?_
        obtain ⟨params, args3⟩ := r
        simp only []
        generalize args3.optKw b!"export" = x
        obtain ⟨exported, args4⟩ := x
        simp only []
        split
        · exact pok_error _
        · refine pok_bind (ih.wrapUntil all _ [] (some close) ds htok nilN hd) fun r3 hr3 => ?_
          obtain ⟨body, e1, endargs, last, ds1⟩ := r3
          simp only []
          split
          · exact pok_error _
          · split
            · exact pok_error _
            · refine pok_pure ⟨NodeOK.tagMacro _, ⟨hr3.2.2.good, ⟨hr3.2.2.world.1,
                forall_push macroOK_default hr3.2.2.world.2 ⟨hr3.1, hr.1⟩⟩, ?_⟩⟩
              simp only []
              split
              · exact hr3.2.2.blocks
              · exact hr3.2.2.blocks
  rw [if_neg h]; clear h
  by_cases h : (start.val == b!"now") = true
  · rw [if_pos h]
    intro r hr
    repeat' (split at hr)
    all_goals first
      | (cases hr; exact ⟨NodeOK.tagNow _ _, hd⟩)
      | cases hr
  rw [if_neg h]; clear h
  by_cases h : (start.val == b!"set") = true
  · rw [if_pos h]
    split
    · exact pok_error _
    · rename_i nm args1 hm
      split
      · exact pok_error _
      · rename_i args2 hm2
        refine pok_bind (parseExpression_args htok n args2 ((ha.matchType hm).1.matchSym hm2)) fun r hr => ?_
        obtain ⟨e, args3⟩ := r
        simp only []
        split
        · exact pok_error _
        · exact pok_pure ⟨NodeOK.tagSet _ _ hr.1, hd⟩
  rw [if_neg h]; clear h
  by_cases h : (start.val == b!"spaceless") = true
  · rw [if_pos h]
    refine pok_bind (ih.wrapUntil all _ [] (some close) ds htok nilN hd) fun r hr => ?_
    obtain ⟨body, e1, e2, last, ds1⟩ := r
    simp only []
    split
    · exact pok_error _
    · exact pok_pure ⟨NodeOK.tagSpaceless _ hr.1, hr.2.2⟩
  rw [if_neg h]; clear h
  by_cases h : (start.val == b!"ssi") = true
  · rw [if_pos h]
    split
    · exact pok_error _
    · rename_i f args1 hm
      split
      · rename_i args2 hm2
        simp only []
        refine pok_bind (ih.fromFile ds.cs _ hd.world) fun r hr => ?_
        obtain ⟨ti, cs⟩ := r
        simp only []
        split
        · exact pok_error _
        · exact pok_pure ⟨NodeOK.tagSsi _ _ (by intro c hc; cases hc), ⟨hd.good, hr, hd.blocks⟩⟩
      · simp only []
        generalize htl : tryLoaders (Path.abs [] (resolveFilename ds.ts.isString ds.ts.name f.val)) cfg.loaders 0 ds.cs.fetchLog = x
        obtain ⟨found, log⟩ := x
        simp only []
        split
        · exact pok_error _
        · rename_i content
          split
          · exact pok_error _
          · have hfound : (tryLoaders (Path.abs [] (resolveFilename ds.ts.isString ds.ts.name f.val)) cfg.loaders 0 ds.cs.fetchLog).1 = some content := by
              rw [htl]
            obtain ⟨l, hl, hmem⟩ := tryLoaders_found _ _ _ _ _ hfound
            exact pok_pure ⟨NodeOK.tagSsi _ _ (by intro c hc; cases hc; exact hS.raw l hl _ hmem),
              ⟨hd.good, ⟨hd.world.1, hd.world.2⟩, hd.blocks⟩⟩
  rw [if_neg h]; clear h
  by_cases h : (start.val == b!"templatetag") = true
  · rw [if_pos h]
    split
    · exact pok_error _
    · rename_i a args1 hm
      split
      · exact pok_error _
      · rename_i out hlk
        split
        · exact pok_error _
        · exact pok_pure ⟨NodeOK.tagTemplatetag _ (hS.tt _ (lookupB_mem _ _ _ hlk)), hd⟩
  rw [if_neg h]; clear h
  by_cases h : (start.val == b!"widthratio") = true
  · rw [if_pos h]
    refine pok_bind (parseExpression_args htok n args ha) fun r1 hr1 => ?_
    obtain ⟨c, args1⟩ := r1
    simp only []
    refine pok_bind (parseExpression_args htok n args1 hr1.2) fun r2 hr2 => ?_
    obtain ⟨m, args2⟩ := r2
    simp only []
    refine pok_bind (parseExpression_args htok n args2 hr2.2) fun r3 hr3 => ?_
    obtain ⟨w, args3⟩ := r3
    simp only []
    refine pok_bind (P := fun _ => True) (fun _ _ => trivial) fun r4 _ => ?_
    obtain ⟨asName, args4⟩ := r4
    simp only []
    split
    · exact pok_error _
    · exact pok_pure ⟨NodeOK.tagWidthratio _ _ _ _ hr1.1 hr2.1 hr3.1, hd⟩
  rw [if_neg h]; clear h
  by_cases h : (start.val == b!"with") = true
  · rw [if_pos h]
    split
    · exact pok_error _
    · refine pok_bind (ih.wrapUntil all _ [] (some close) ds htok nilN hd) fun r hr => ?_
      obtain ⟨body, e1, endargs, last, ds1⟩ := r
      simp only []
      split
      · exact pok_error _
      · refine pok_bind (withPairs_ok htok n _ [] args (by intro p hp; cases hp) ha) fun pairs hp => ?_
        exact pok_pure ⟨NodeOK.tagWith _ _ hp hr.1, hr.2.2⟩
  rw [if_neg h]; clear h
  exact pok_error _

end tagstep

/-- **every function of the document parser, every fuel** -/
theorem allDoc {T : LexTables} {cfg : SetCfg} {L : Bytes → Prop} (hS : SetupOK T cfg L) : ∀ fuel, AllDoc T cfg L fuel
  | 0 => allDoc_zero T cfg L
  | n + 1 =>
    have ih := allDoc hS n
    { compileTpl := compileTpl_succ ih
      fromFile := fromFile_succ hS ih
      parseDocument := parseDocument_succ ih
      parseDocElement := parseDocElement_succ ih
      parseTag := parseTag_succ ih
      wrapUntil := wrapUntil_succ ih
      tagParser := tagParser_succ hS ih
      ifBranches := ifBranches_succ ih }

theorem worldOK_empty {L : Bytes → Prop} : WorldOK L ({} : CState) :=
  ⟨fun i => by simpa using tplOK_default, fun i => by simpa using macroOK_default⟩

end Pongo

/-
  Every expression the parser accepts contains only filter calls whose names were written as
  identifier tokens of the source, are registered and are not banned — at any depth: chains,
  filter parameters, subscripts, call arguments, list-literal items.

  One induction on the fuel over the sixteen functions of the expression parser
  (`Model/Parse.lean`), with a small Hoare logic for the parser monad (`POK`).
-/
import Pongo.Model.Parse
import Pongo.Lemmas.ExprAll

namespace Pongo

/-- partial correctness in the parser monad: if `m` succeeds, its result satisfies `R` -/
def POK {α} (R : α → Prop) (m : PM α) : Prop := ∀ a, m = .ok a → R a

theorem pok_pure {α} {R : α → Prop} {a : α} (h : R a) : POK R (pure a : PM α) := by
  intro b hb
  cases hb
  exact h

theorem pok_ok {α} {R : α → Prop} {a : α} (h : R a) : POK R (.ok a : PM α) := by
  intro b hb
  cases hb
  exact h

theorem pok_error {α} {R : α → Prop} (e : PErr) : POK R (.error e : PM α) := by
  intro a h
  cases h

theorem pok_bind {α β} {P : α → Prop} {R : β → Prop} {m : PM α} {f : α → PM β}
    (hm : POK P m) (hf : ∀ a, P a → POK R (f a)) : POK R (m >>= f) := by
  intro b hb
  cases m with
  | error e => simp [bind, Except.bind] at hb
  | ok a => exact hf a (hm a rfl) b hb

theorem pok_mono {α} {P R : α → Prop} {m : PM α} (hm : POK P m) (h : ∀ a, P a → R a) : POK R m :=
  fun a ha => h a (hm a ha)

/-- the parser state stays inside one token list -/
structure Good (all : List Tok) (p : PS) : Prop where
  hall : p.all = all
  hsub : ∀ t ∈ p.ts, t ∈ all

theorem Good.adv {all : List Tok} {p : PS} (h : Good all p) : Good all p.adv :=
  ⟨h.hall, fun t ht => h.hsub t (List.mem_of_mem_tail ht)⟩

theorem Good.ofList (ts : List Tok) : Good ts ⟨ts, ts⟩ := ⟨rfl, fun _ h => h⟩

theorem Good.matchSym {all : List Tok} {p p' : PS} {v : Bytes} (h : Good all p) (hm : p.matchSym v = some p') : Good all p' := by
  unfold PS.matchSym at hm
  split at hm
  · split at hm
    · cases hm; exact h.adv
    · cases hm
  · cases hm

theorem Good.matchKw {all : List Tok} {p p' : PS} {v : Bytes} (h : Good all p) (hm : p.matchKw v = some p') : Good all p' := by
  unfold PS.matchKw at hm
  split at hm
  · split at hm
    · cases hm; exact h.adv
    · cases hm
  · cases hm

theorem Good.matchIdentVal {all : List Tok} {p p' : PS} {v : Bytes} (h : Good all p) (hm : p.matchIdentVal v = some p') : Good all p' := by
  unfold PS.matchIdentVal at hm
  split at hm
  · split at hm
    · cases hm; exact h.adv
    · cases hm
  · cases hm

theorem Good.matchType {all : List Tok} {p p' : PS} {ty : TokTyp} {t : Tok} (h : Good all p) (hm : p.matchType ty = some (t, p')) :
    Good all p' ∧ t ∈ all ∧ t.typ = ty := by
  unfold PS.matchType at hm
  split at hm
  · rename_i t0 rest hts
    split at hm
    · rename_i hty
      cases hm
      exact ⟨h.adv, h.hsub _ (by rw [hts]; exact List.mem_cons_self), by simpa using hty⟩
    · cases hm
  · cases hm

theorem good_signStep {all : List Tok} {p : PS} (h : Good all p) : Good all (signStep p).2 := by
  unfold signStep
  split
  · split
    · exact h.adv
    · split
      · exact h.adv
      · exact h
  · exact h

theorem good_notStep {all : List Tok} {p : PS} (h : Good all p) : Good all (notStep p).2 := by
  unfold notStep
  split
  · split
    · exact h.adv
    · exact h
  · exact h

section
variable (cfg : SetCfg) (all : List Tok)

/-- a filter name the parser lets through: written as an identifier token, registered, not banned -/
def Allowed (n : Bytes) : Prop :=
  cfg.regFilters.elem n = true ∧ cfg.bannedFilters.elem n = false ∧ ∃ t ∈ all, t.typ = .ident ∧ t.val = n

/-- what `parseFilter` alone guarantees (the ban is checked by its callers) -/
def FilterParsed (Q : Bytes → Prop) (f : FCall) : Prop :=
  match f with
  | .mk name param _ => cfg.regFilters.elem name = true ∧ (∃ t ∈ all, t.typ = .ident ∧ t.val = name) ∧
      ∀ e, param = some e → ExprAll Q e

abbrev RE (Q : Bytes → Prop) (r : Expr × PS) : Prop := ExprAll Q r.1 ∧ Good all r.2

/-- every function of the expression parser, at one fuel level -/
structure AllParse (Q : Bytes → Prop) (fuel : Nat) : Prop where
  parseExpression : ∀ p, Good all p → POK (RE all Q) (parseExpression cfg fuel p)
  parseRelational : ∀ p, Good all p → POK (RE all Q) (parseRelational cfg fuel p)
  parseSimple : ∀ p, Good all p → POK (RE all Q) (parseSimple cfg fuel p)
  simpleLoop : ∀ acc p, ExprAll Q acc → Good all p → POK (RE all Q) (simpleLoop cfg fuel acc p)
  parseTerm : ∀ p, Good all p → POK (RE all Q) (parseTerm cfg fuel p)
  termLoop : ∀ acc p, ExprAll Q acc → Good all p → POK (RE all Q) (termLoop cfg fuel acc p)
  parsePower : ∀ p, Good all p → POK (RE all Q) (parsePower cfg fuel p)
  parseFactor : ∀ p, Good all p → POK (RE all Q) (parseFactor cfg fuel p)
  parseVarOrLitWithFilter : ∀ p, Good all p → POK (RE all Q) (parseVarOrLitWithFilter cfg fuel p)
  filterLoop : ∀ acc p, (∀ f ∈ acc, FCallAll Q f) → Good all p →
    POK (fun r => (∀ f ∈ r.1, FCallAll Q f) ∧ Good all r.2) (filterLoop cfg fuel acc p)
  parseFilter : ∀ p, Good all p → POK (fun r => FilterParsed cfg all Q r.1 ∧ Good all r.2) (parseFilter cfg fuel p)
  parseVarOrLit : ∀ p, Good all p → POK (RE all Q) (parseVarOrLit cfg fuel p)
  parseArray : ∀ o p, Good all p → POK (RE all Q) (parseArray cfg fuel o p)
  arrayLoop : ∀ o acc p, (∀ e ∈ acc, ExprAll Q e) → Good all p → POK (RE all Q) (arrayLoop cfg fuel o acc p)
  variableLoop : ∀ pos parts p, (∀ x ∈ parts, PartAll Q x) → Good all p → POK (RE all Q) (variableLoop cfg fuel pos parts p)
  argumentLoop : ∀ acc p, (∀ e ∈ acc, ExprAll Q e) → Good all p →
    POK (fun r => (∀ e ∈ r.1, ExprAll Q e) ∧ Good all r.2) (argumentLoop cfg fuel acc p)

theorem allParse_zero (Q : Bytes → Prop) : AllParse cfg all Q 0 := by
  constructor <;> intros <;>
    first
    | (rw [parseExpression]; exact pok_error _)
    | (rw [parseRelational]; exact pok_error _)
    | (rw [parseSimple]; exact pok_error _)
    | (rw [simpleLoop]; exact pok_error _)
    | (rw [parseTerm]; exact pok_error _)
    | (rw [termLoop]; exact pok_error _)
    | (rw [parsePower]; exact pok_error _)
    | (rw [parseFactor]; exact pok_error _)
    | (rw [parseVarOrLitWithFilter]; exact pok_error _)
    | (rw [filterLoop]; exact pok_error _)
    | (rw [parseFilter]; exact pok_error _)
    | (rw [parseVarOrLit]; exact pok_error _)
    | (rw [parseArray]; exact pok_error _)
    | (rw [arrayLoop]; exact pok_error _)
    | (rw [variableLoop]; exact pok_error _)
    | (rw [argumentLoop]; exact pok_error _)

end

section steps
variable {cfg : SetCfg} {all : List Tok} {Q : Bytes → Prop} {n : Nat} (ih : AllParse cfg all Q n)
include ih

theorem parseExpression_succ (p : PS) (hp : Good all p) : POK (RE all Q) (parseExpression cfg (n + 1) p) := by
  rw [parseExpression]
  refine pok_bind (ih.parseRelational p hp) fun r hr => ?_
  obtain ⟨e1, p1⟩ := r
  simp only []
  split
  · split
    · refine pok_bind (ih.parseExpression _ hr.2.adv) fun r2 hr2 => ?_
      exact pok_pure ⟨ExprAll.bin _ _ _ _ hr.1 hr2.1, hr2.2⟩
    · split
      · refine pok_bind (ih.parseExpression _ hr.2.adv) fun r2 hr2 => ?_
        exact pok_pure ⟨ExprAll.bin _ _ _ _ hr.1 hr2.1, hr2.2⟩
      · exact pok_pure hr
  · exact pok_pure hr

theorem parseRelational_succ (p : PS) (hp : Good all p) : POK (RE all Q) (parseRelational cfg (n + 1) p) := by
  rw [parseRelational]
  refine pok_bind (ih.parseSimple p hp) fun r hr => ?_
  obtain ⟨e1, p1⟩ := r
  simp only []
  split
  · split
    · refine pok_bind (ih.parseRelational _ hr.2.adv) fun r2 hr2 => ?_
      exact pok_pure ⟨ExprAll.bin _ _ _ _ hr.1 hr2.1, hr2.2⟩
    · split
      · refine pok_bind (ih.parseSimple _ hr.2.adv) fun r2 hr2 => ?_
        exact pok_pure ⟨ExprAll.bin _ _ _ _ hr.1 hr2.1, hr2.2⟩
      · exact pok_pure hr
  · exact pok_pure hr

theorem parseSimple_succ (p : PS) (hp : Good all p) : POK (RE all Q) (parseSimple cfg (n + 1) p) := by
  rw [parseSimple]
  have h1 := good_signStep hp
  generalize signStep p = x1 at h1 ⊢
  obtain ⟨negSign, p1⟩ := x1
  simp only [] at h1 ⊢
  have h2 := good_notStep h1
  generalize notStep p1 = x2 at h2 ⊢
  obtain ⟨neg, p2⟩ := x2
  simp only [] at h2 ⊢
  refine pok_bind (ih.parseTerm _ h2) fun r hr => ?_
  obtain ⟨t1, p3⟩ := r
  refine ih.simpleLoop _ _ ?_ hr.2
  split
  · exact ExprAll.unary _ _ _ hr.1
  · exact hr.1

theorem simpleLoop_succ (acc : Expr) (p : PS) (ha : ExprAll Q acc) (hp : Good all p) :
    POK (RE all Q) (simpleLoop cfg (n + 1) acc p) := by
  rw [simpleLoop]
  split
  · split
    · refine pok_bind (ih.parseTerm _ hp.adv) fun r hr => ?_
      exact ih.simpleLoop _ _ (ExprAll.bin _ _ _ _ ha hr.1) hr.2
    · exact pok_pure ⟨ha, hp⟩
  · exact pok_pure ⟨ha, hp⟩

theorem parseTerm_succ (p : PS) (hp : Good all p) : POK (RE all Q) (parseTerm cfg (n + 1) p) := by
  rw [parseTerm]
  refine pok_bind (ih.parsePower p hp) fun r hr => ?_
  exact ih.termLoop _ _ hr.1 hr.2

theorem termLoop_succ (acc : Expr) (p : PS) (ha : ExprAll Q acc) (hp : Good all p) :
    POK (RE all Q) (termLoop cfg (n + 1) acc p) := by
  rw [termLoop]
  split
  · split
    · refine pok_bind (ih.parsePower _ hp.adv) fun r hr => ?_
      exact ih.termLoop _ _ (ExprAll.bin _ _ _ _ ha hr.1) hr.2
    · exact pok_pure ⟨ha, hp⟩
  · exact pok_pure ⟨ha, hp⟩

theorem parsePower_succ (p : PS) (hp : Good all p) : POK (RE all Q) (parsePower cfg (n + 1) p) := by
  rw [parsePower]
  refine pok_bind (ih.parseFactor p hp) fun r hr => ?_
  obtain ⟨f1, p1⟩ := r
  simp only []
  split
  · split
    · refine pok_bind (ih.parsePower _ hr.2.adv) fun r2 hr2 => ?_
      exact pok_pure ⟨ExprAll.bin _ _ _ _ hr.1 hr2.1, hr2.2⟩
    · exact pok_pure hr
  · exact pok_pure hr

theorem parseFactor_succ (p : PS) (hp : Good all p) : POK (RE all Q) (parseFactor cfg (n + 1) p) := by
  rw [parseFactor]
  split
  · rename_i p1 hm
    refine pok_bind (ih.parseExpression _ (hp.matchSym hm)) fun r hr => ?_
    obtain ⟨e, p2⟩ := r
    simp only []
    split
    · rename_i p3 hm2
      exact pok_pure ⟨hr.1, hr.2.matchSym hm2⟩
    · exact pok_error _
  · exact ih.parseVarOrLitWithFilter p hp

theorem parseVarOrLitWithFilter_succ (p : PS) (hp : Good all p) : POK (RE all Q) (parseVarOrLitWithFilter cfg (n + 1) p) := by
  rw [parseVarOrLitWithFilter]
  simp only []
  refine pok_bind (ih.parseVarOrLit p hp) fun r hr => ?_
  obtain ⟨v, p1⟩ := r
  simp only []
  refine pok_bind (ih.filterLoop [] p1 (by intro f hf; cases hf) hr.2) fun r2 hr2 => ?_
  exact pok_pure ⟨ExprAll.filtered _ _ _ hr.1 hr2.1, hr2.2⟩

theorem filterLoop_succ (hQ : ∀ x, Allowed cfg all x → Q x) (acc : List FCall) (p : PS) (ha : ∀ f ∈ acc, FCallAll Q f) (hp : Good all p) :
    POK (fun r => (∀ f ∈ r.1, FCallAll Q f) ∧ Good all r.2) (filterLoop cfg (n + 1) acc p) := by
  rw [filterLoop]
  split
  · rename_i p1 hm
    refine pok_bind (ih.parseFilter _ (hp.matchSym hm)) fun r hr => ?_
    obtain ⟨f, p2⟩ := r
    obtain ⟨name, param, pos⟩ := f
    simp only []
    split
    · exact pok_error _
    · rename_i hban
      refine ih.filterLoop _ _ ?_ hr.2
      intro f hf
      rcases List.mem_append.mp hf with h | h
      · exact ha f h
      · simp only [List.mem_singleton] at h
        subst h
        obtain ⟨hreg, htok, hparam⟩ := hr.1
        exact FCallAll.mk _ _ _ (hQ _ ⟨hreg, by simpa using hban, htok⟩) hparam
  · exact pok_pure ⟨ha, hp⟩

theorem parseFilter_succ (p : PS) (hp : Good all p) :
    POK (fun r => FilterParsed cfg all Q r.1 ∧ Good all r.2) (parseFilter cfg (n + 1) p) := by
  rw [parseFilter]
  split
  · exact pok_error _
  · rename_i id p1 hm
    obtain ⟨hp1, hid, htyp⟩ := hp.matchType hm
    split
    · exact pok_error _
    · rename_i hreg
      split
      · rename_i p2 hm2
        split
        · exact pok_error _
        · refine pok_bind (ih.parseVarOrLit _ (hp1.matchSym hm2)) fun r hr => ?_
          refine pok_pure ⟨⟨by simpa using hreg, ⟨id, hid, htyp, rfl⟩, ?_⟩, hr.2⟩
          intro e he
          cases he
          exact hr.1
      · refine pok_pure ⟨⟨by simpa using hreg, ⟨id, hid, htyp, rfl⟩, ?_⟩, hp1⟩
        intro e he
        cases he

theorem parseVarOrLit_succ (p : PS) (hp : Good all p) : POK (RE all Q) (parseVarOrLit cfg (n + 1) p) := by
  rw [parseVarOrLit]
  split
  · exact pok_error _
  · rename_i t rest hts
    split
    · -- number
      simp only []
      split
      · rename_i p1 hm
        split
        · exact pok_error _
        · rename_i t2 p2 hm2
          split
          · exact pok_pure ⟨ExprAll.float _ _, ((hp.adv.matchSym hm).matchType hm2).1⟩
          · exact pok_error _
      · split
        · exact pok_pure ⟨ExprAll.int _ _, hp.adv⟩
        · exact pok_error _
    · exact pok_pure ⟨ExprAll.str _ _, hp.adv⟩
    · split
      · exact pok_pure ⟨ExprAll.bool _ _, hp.adv⟩
      · split
        · exact pok_pure ⟨ExprAll.bool _ _, hp.adv⟩
        · exact pok_error _
    · split
      · exact ih.parseArray _ _ hp.adv
      · split
        · exact pok_error _
        · refine ih.variableLoop _ _ _ ?_ hp.adv
          intro x hx
          simp only [List.mem_singleton] at hx
          subst hx
          exact PartAll.ident _ _ (by intro args h; cases h)

theorem parseArray_succ (o : Tok) (p : PS) (hp : Good all p) : POK (RE all Q) (parseArray cfg (n + 1) o p) := by
  rw [parseArray]
  split
  · rename_i p1 hm
    exact pok_pure ⟨ExprAll.arr _ _ (by intro x hx; cases hx), hp.matchSym hm⟩
  · exact ih.arrayLoop _ _ _ (by intro x hx; cases hx) hp

theorem arrayLoop_succ (o : Tok) (acc : List Expr) (p : PS) (ha : ∀ e ∈ acc, ExprAll Q e) (hp : Good all p) :
    POK (RE all Q) (arrayLoop cfg (n + 1) o acc p) := by
  rw [arrayLoop]
  split
  · exact pok_error _
  · refine pok_bind (ih.parseExpression p hp) fun r hr => ?_
    obtain ⟨e, p1⟩ := r
    simp only []
    have hacc : ∀ x ∈ acc ++ [e], ExprAll Q x := by
      intro x hx
      rcases List.mem_append.mp hx with h | h
      · exact ha x h
      · simp only [List.mem_singleton] at h
        subst h
        exact hr.1
    split
    · rename_i p2 hm
      exact pok_pure ⟨ExprAll.arr _ _ hacc, hr.2.matchSym hm⟩
    · split
      · rename_i p2 hm
        exact ih.arrayLoop _ _ _ hacc (hr.2.matchSym hm)
      · exact pok_error _

theorem argumentLoop_succ (acc : List Expr) (p : PS) (ha : ∀ e ∈ acc, ExprAll Q e) (hp : Good all p) :
    POK (fun r => (∀ e ∈ r.1, ExprAll Q e) ∧ Good all r.2) (argumentLoop cfg (n + 1) acc p) := by
  rw [argumentLoop]
  split
  · exact pok_error _
  · split
    · rename_i p1 hm
      exact pok_pure ⟨ha, hp.matchSym hm⟩
    · refine pok_bind (ih.parseExpression p hp) fun r hr => ?_
      obtain ⟨e, p1⟩ := r
      simp only []
      have hacc : ∀ x ∈ acc ++ [e], ExprAll Q x := by
        intro x hx
        rcases List.mem_append.mp hx with h | h
        · exact ha x h
        · simp only [List.mem_singleton] at h
          subst h
          exact hr.1
      split
      · rename_i p2 hm
        exact pok_pure ⟨hacc, hr.2.matchSym hm⟩
      · split
        · rename_i p2 hm
          exact ih.argumentLoop _ _ hacc (hr.2.matchSym hm)
        · exact pok_error _

omit ih in
/-- attaching a parsed argument list to the last part of a name keeps the parts in order -/
theorem parts_with_args {parts : List Part} {args : List Expr} (hparts : ∀ x ∈ parts, PartAll Q x)
    (hargs : ∀ e ∈ args, ExprAll Q e) :
    ∀ x ∈ (match parts.getLast? with
      | some (Part.ident s c) => parts.dropLast ++ [Part.ident s (some ((c.getD []) ++ args))]
      | some (Part.idx i c) => parts.dropLast ++ [Part.idx i (some ((c.getD []) ++ args))]
      | some (Part.sub e c) => parts.dropLast ++ [Part.sub e (some ((c.getD []) ++ args))]
      | none => parts), PartAll Q x := by
  have hcall : ∀ (c : Option (List Expr)), (∀ a0, c = some a0 → ∀ a ∈ a0, ExprAll Q a) →
      ∀ a1, some ((c.getD []) ++ args) = some a1 → ∀ a ∈ a1, ExprAll Q a := by
    intro c hc a1 h1 a ha
    cases h1
    rcases List.mem_append.mp ha with h | h
    · cases c with
      | none => simp at h
      | some a0 => exact hc a0 rfl a h
    · exact hargs a h
  split
  · rename_i s c hl
    intro x hx
    rcases List.mem_append.mp hx with h | h
    · exact hparts x (List.dropLast_subset _ h)
    · simp only [List.mem_singleton] at h
      subst h
      cases hparts _ (List.mem_of_getLast? hl) with
      | ident _ _ hc => exact PartAll.ident _ _ (hcall c hc)
  · rename_i i c hl
    intro x hx
    rcases List.mem_append.mp hx with h | h
    · exact hparts x (List.dropLast_subset _ h)
    · simp only [List.mem_singleton] at h
      subst h
      cases hparts _ (List.mem_of_getLast? hl) with
      | idx _ _ hc => exact PartAll.idx _ _ (hcall c hc)
  · rename_i e c hl
    intro x hx
    rcases List.mem_append.mp hx with h | h
    · exact hparts x (List.dropLast_subset _ h)
    · simp only [List.mem_singleton] at h
      subst h
      cases hparts _ (List.mem_of_getLast? hl) with
      | sub _ _ he hc => exact PartAll.sub _ _ he (hcall c hc)
  · exact hparts

theorem variableLoop_succ (pos : TokPos) (parts : List Part) (p : PS) (ha : ∀ x ∈ parts, PartAll Q x) (hp : Good all p) :
    POK (RE all Q) (variableLoop cfg (n + 1) pos parts p) := by
  have snoc : ∀ (x : Part), PartAll Q x → ∀ y ∈ parts ++ [x], PartAll Q y := by
    intro x hx y hy
    rcases List.mem_append.mp hy with h | h
    · exact ha y h
    · simp only [List.mem_singleton] at h
      subst h
      exact hx
  rw [variableLoop]
  split
  · exact pok_pure ⟨ExprAll.var _ _ ha, hp⟩
  · split
    · rename_i p1 hm
      have hp1 := hp.matchSym hm
      split
      · split
        · exact ih.variableLoop _ _ _ (snoc _ (PartAll.ident _ _ (by intro a h; cases h))) hp1.adv
        · split
          · exact ih.variableLoop _ _ _ (snoc _ (PartAll.idx _ _ (by intro a h; cases h))) hp1.adv
          · exact pok_error _
        · exact pok_error _
      · exact pok_error _
    · split
      · rename_i p1 hm
        have hp1 := hp.matchSym hm
        split
        · exact pok_error _
        · refine pok_bind (ih.parseExpression _ hp1) fun r hr => ?_
          obtain ⟨e, p2⟩ := r
          simp only []
          split
          · rename_i p3 hm3
            exact pok_pure ⟨ExprAll.var _ _ (snoc _ (PartAll.sub _ _ hr.1 (by intro a h; cases h))), hr.2.matchSym hm3⟩
          · exact pok_error _
      · split
        · rename_i p1 hm
          refine pok_bind (ih.argumentLoop [] _ (by intro e he; cases he) (hp.matchSym hm)) fun r hr => ?_
          obtain ⟨args, p2⟩ := r
          simp only []
          exact ih.variableLoop _ _ _ (parts_with_args ha hr.1) hr.2
        · exact pok_pure ⟨ExprAll.var _ _ ha, hp⟩

end steps

/-- **every function of the expression parser, every fuel** -/
theorem allParse (cfg : SetCfg) (all : List Tok) {Q : Bytes → Prop} (hQ : ∀ x, Allowed cfg all x → Q x) :
    ∀ fuel, AllParse cfg all Q fuel
  | 0 => allParse_zero cfg all Q
  | n + 1 =>
    have ih := allParse cfg all hQ n
    { parseExpression := parseExpression_succ ih
      parseRelational := parseRelational_succ ih
      parseSimple := parseSimple_succ ih
      simpleLoop := simpleLoop_succ ih
      parseTerm := parseTerm_succ ih
      termLoop := termLoop_succ ih
      parsePower := parsePower_succ ih
      parseFactor := parseFactor_succ ih
      parseVarOrLitWithFilter := parseVarOrLitWithFilter_succ ih
      filterLoop := filterLoop_succ ih hQ
      parseFilter := parseFilter_succ ih
      parseVarOrLit := parseVarOrLit_succ ih
      parseArray := parseArray_succ ih
      arrayLoop := arrayLoop_succ ih
      variableLoop := variableLoop_succ ih
      argumentLoop := argumentLoop_succ ih }

end Pongo

/-
  Autoescape as an invariant of the whole interpreter (C02), part 3: values.
  What is printed for a well-formed value is clean; sub-values of well-formed values are
  well-formed; environments.
-/
import Pongo.Lemmas.CleanSat

namespace Pongo

section
variable {L : Bytes → Prop}

theorem toS_str (s : Bytes) : (Val.str s).toS = s := by
  simp [Val.toS, Val.toStr, Val.isNil, Val.rkind, Val.kind, Val.resolved]

/-! ### what the sinks write -/

theorem safeShape_toS_clean {v : Val} (h : SafeShape L v) : Clean L v.toS := by
  rcases h with ⟨s, rfl, hs⟩ | ⟨xs, rfl, _⟩ | ⟨u, rfl⟩
  · rw [toS_str]; exact hs
  · exact Clean.of_chunk L (Chunk.engine _ rfl rfl)
  · exact Clean.of_chunk L (Chunk.engine _ rfl rfl)

/-- `{{ e }}` and `cycle`: under autoescape and without the `safe` filter, what is written is clean -/
theorem printed_clean {v : V} (hv : VOK L v) : Clean L (printed false true v) := by
  unfold printed
  cases hs : v.safe
  · cases ht : (v.v.isString || v.v.isStringer)
    · simp only [Bool.not_false, Bool.true_and, ht, Bool.false_and, Bool.false_eq_true, ↓reduceIte]
      simp only [Bool.or_eq_false_iff] at ht
      exact Clean.of_chunk L (Chunk.engine _ ht.1 ht.2)
    · simp only [Bool.not_false, Bool.true_and, ht, Bool.and_self, ↓reduceIte]
      exact Clean.of_chunk L (Chunk.esc _)
  · simp only [Bool.not_false, Bool.not_true, Bool.false_and, Bool.and_false, Bool.false_eq_true, ↓reduceIte]
    exact safeShape_toS_clean (hv.2 hs)

theorem firstofText_clean (v : V) : Clean L (firstofText false true v) := by
  simp only [firstofText, Bool.not_false, Bool.and_self, ↓reduceIte]
  exact Clean.of_chunk L (Chunk.esc _)

/-! ### lookups -/

theorem lookup_mem {α β} [BEq α] [LawfulBEq α] (l : List (α × β)) (k : α) (v : β) (h : l.lookup k = some v) : (k, v) ∈ l := by
  induction l with
  | nil => simp at h
  | cons hd tl ih =>
    obtain ⟨a, b⟩ := hd
    simp only [List.lookup] at h
    split at h
    · rename_i heq
      have : k = a := by simpa using heq
      subst this
      cases h
      exact List.mem_cons_self
    · exact List.mem_cons_of_mem _ (ih h)

theorem valOK_lookup {α} [BEq α] [LawfulBEq α] {l : List (α × Val)} (hl : ∀ kv ∈ l, ValOK L kv.2) {k : α} {v : Val}
    (h : l.lookup k = some v) : ValOK L v := hl _ (lookup_mem l k v h)

theorem valOK_getD {xs : List Val} (hl : ∀ x ∈ xs, ValOK L x) (i : Nat) : ValOK L (xs.getD i .nil) := by
  rw [List.getD_eq_getElem?_getD]
  cases h : xs[i]? with
  | none => exact ValOK.nil
  | some x => exact hl x (List.mem_of_getElem? h)

/-! ### environments -/

theorem envOK_nil : EnvOK L [] := by intro kv h; cases h

theorem envOK_set {e : Env} (he : EnvOK L e) (k : Bytes) {v : Val} (hv : ValOK L v) : EnvOK L (e.set k v) := by
  unfold Env.set
  split
  · intro kv hkv
    simp only [List.mem_map] at hkv
    obtain ⟨x, hx, rfl⟩ := hkv
    split
    · exact hv
    · exact he x hx
  · intro kv hkv
    simp only [List.mem_append, List.mem_singleton] at hkv
    rcases hkv with h | rfl
    · exact he kv h
    · exact hv

theorem envOK_lookup {e : Env} (he : EnvOK L e) {k : Bytes} {v : Val} (h : e.lookup k = some v) : ValOK L v :=
  valOK_lookup he h

theorem envOK_foldl_set {pairs : List (Bytes × Val)} (hp : ∀ kv ∈ pairs, ValOK L kv.2) :
    ∀ {e : Env}, EnvOK L e → EnvOK L (pairs.foldl (fun (e : Env) kv => e.set kv.1 kv.2) e) := by
  induction pairs with
  | nil => intro e he; exact he
  | cons hd tl ih =>
    intro e he
    simp only [List.foldl_cons]
    exact ih (fun kv h => hp kv (List.mem_cons_of_mem _ h)) (envOK_set he _ (hp hd List.mem_cons_self))

theorem envOK_update {e o : Env} (he : EnvOK L e) (ho : EnvOK L o) : EnvOK L (e.update o) := by
  unfold Env.update
  exact envOK_foldl_set ho he

theorem envOK_filter {e : Env} (he : EnvOK L e) (p : Bytes × Val → Bool) : EnvOK L (e.filter p) :=
  fun kv h => he kv (List.mem_filter.mp h).1

theorem valOK_lookup_getD {e : Env} (he : EnvOK L e) (k : Bytes) : ValOK L ((e.lookup k).getD .nil) := by
  cases h : e.lookup k with
  | none => exact ValOK.nil
  | some v => exact envOK_lookup he h

end

end Pongo

/-
  Helper lemmas about the lexer model (text loop, verbatim bodies).
  Property theorems live in `Pongo/Props/*.lean`.
-/
import Pongo.Model.Lex

namespace Pongo

/-- induction from the right end of a list (core-only replacement for Mathlib's `List.reverseRecOn`) -/
theorem rev_ind {P : Bytes → Prop} (h0 : P []) (h1 : ∀ s c, P s → P (s ++ [c])) : ∀ s, P s := by
  intro s
  have : ∀ r : Bytes, P r.reverse := by
    intro r
    induction r with
    | nil => simpa
    | cons c t ih => simpa using h1 _ c ih
  simpa using this s.reverse

def stdOpen : List Bytes := [[0x7b,0x7b],[0x7b,0x25],[0x7b,0x23]]

/-- no position of `s` holds `{` followed by `{`, `%` or `#` -/
def noOpen : Bytes → Bool
  | [] => true
  | [_] => true
  | c :: d :: t => !(c == 0x7b && (d == 0x7b || d == 0x25 || d == 0x23)) && noOpen (d :: t)

/-- every marker that makes `run` leave the text loop starts with `{{`, `{%` or `{#` -/
def TextTablesOK (T : LexTables) : Bool :=
  (T.commentOpen :: T.verbStart :: T.openers).all (fun p => stdOpen.any (·.isPrefixOf p))

theorem noOpen_tail {c : UInt8} {t : Bytes} (h : noOpen (c :: t) = true) : noOpen t = true := by
  cases t with
  | nil => rfl
  | cons d t => simp [noOpen] at h; exact h.2

theorem stdOpen_not_prefix {s : Bytes} (h : noOpen s = true) : ∀ q ∈ stdOpen, q.isPrefixOf s = false := by
  intro q hq
  simp [stdOpen] at hq
  match s with
  | [] => rcases hq with rfl | rfl | rfl <;> rfl
  | [c] => rcases hq with rfl | rfl | rfl <;> simp [List.isPrefixOf]
  | c :: d :: t =>
    simp [noOpen] at h
    have h1 := h.1
    rcases hq with rfl | rfl | rfl <;> simp [List.isPrefixOf] <;> intro hc hd <;> simp_all

theorem isPrefixOf_trans_false {q p s : Bytes} (hqp : q.isPrefixOf p = true) (hqs : q.isPrefixOf s = false) :
    p.isPrefixOf s = false := by
  cases h : p.isPrefixOf s with
  | false => rfl
  | true =>
    have h1 := List.isPrefixOf_iff_prefix.mp hqp
    have h2 := List.isPrefixOf_iff_prefix.mp h
    have := List.isPrefixOf_iff_prefix.mpr (h1.trans h2)
    rw [this] at hqs; cases hqs

theorem marker_not_prefix {T : LexTables} (hT : TextTablesOK T = true) {s : Bytes} (h : noOpen s = true) :
    ∀ p ∈ (T.commentOpen :: T.verbStart :: T.openers), p.isPrefixOf s = false := by
  intro p hp
  have := List.all_eq_true.mp hT p hp
  obtain ⟨q, hq, hqp⟩ := List.any_eq_true.mp this
  exact isPrefixOf_trans_false hqp (stdOpen_not_prefix h q hq)

/-- closed form of the text loop's position bookkeeping -/
def textPos (p : Pos) (s : Bytes) : Pos := s.foldl Pos.step p

/-- the text loop over a delimiter-free string only accumulates it -/
theorem run_text (T : LexTables) (hT : TextTablesOK T = true) (s : Bytes) :
    ∀ st : RunSt, st.inVerb = false → noOpen s = true → (∀ c ∈ s, some c ≠ T.eofByte) →
      run T s st = finish { st with pos := textPos st.pos s, pend := s.reverse ++ st.pend } := by
  induction s with
  | nil =>
    intro st hv hn he
    obtain ⟨pos, start, pend, toks, inVerb⟩ := st
    simp only at hv; subst hv
    have hm := marker_not_prefix hT hn
    have h1 : T.verbStart.isPrefixOf [] = false := hm _ (by simp)
    have h2 : T.commentOpen.isPrefixOf [] = false := hm _ (by simp)
    have h3 : isOpener T [] = false := by
      simp only [isOpener, List.any_eq_false]
      intro p hp; simp [hm p (by simp [hp])]
    rw [run]
    simp [h1, h2, h3, textPos]
  | cons c t ih =>
    intro st hv hn he
    obtain ⟨pos, start, pend, toks, inVerb⟩ := st
    simp only at hv; subst hv
    have hm := marker_not_prefix hT hn
    have h1 : T.verbStart.isPrefixOf (c :: t) = false := hm _ (by simp)
    have h2 : T.commentOpen.isPrefixOf (c :: t) = false := hm _ (by simp)
    have h3 : isOpener T (c :: t) = false := by
      simp only [isOpener, List.any_eq_false]
      intro p hp; simp [hm p (by simp [hp])]
    have hc : some c ≠ T.eofByte := he c (by simp)
    rw [run]
    simp only [h1, h2, h3, hc, Bool.not_false, Bool.true_and, Bool.false_and, Bool.false_eq_true, if_false]
    rw [ih _ rfl (noOpen_tail hn) (fun c hc' => he c (by simp [hc']))]
    simp [textPos]

/-- the markers' hard-coded widths equal the lengths of the strings matched,
    and the markers are non-empty -/
def VerbTablesOK (T : LexTables) : Bool :=
  T.verbStartW == T.verbStart.length && T.verbEndW == T.verbEnd.length &&
  T.verbStart != [] && T.verbEnd != []

/-- inside a verbatim block nothing but the end marker is looked at -/
theorem run_verbatim_body (T : LexTables) (hT : VerbTablesOK T = true) (body tail : Bytes) :
    ∀ st : RunSt, st.inVerb = true →
      (∀ k, k < body.length → T.verbEnd.isPrefixOf ((body ++ T.verbEnd ++ tail).drop k) = false) →
      (∀ c ∈ body, some c ≠ T.eofByte) →
      run T (body ++ T.verbEnd ++ tail) st =
        run T tail { ({ st with pos := textPos st.pos body, pend := body.reverse ++ st.pend } : RunSt).flush.skip T.verbEndW
                     with inVerb := false } := by
  simp only [VerbTablesOK, Bool.and_eq_true, beq_iff_eq, bne_iff_ne] at hT
  obtain ⟨⟨⟨hw1, hw2⟩, hne1⟩, hne2⟩ := hT
  induction body with
  | nil =>
    intro st hv _ _
    obtain ⟨pos, start, pend, toks, inVerb⟩ := st
    simp only at hv; subst hv
    have hp : T.verbEnd.isPrefixOf (T.verbEnd ++ tail) = true :=
      List.isPrefixOf_iff_prefix.mpr (List.prefix_append _ _)
    conv => lhs; rw [run.eq_def]
    have hd : (T.verbEnd ++ tail).drop T.verbEndW = tail := by rw [hw2]; simp
    have hl : tail.length < (T.verbEnd ++ tail).length := by
      have : 0 < T.verbEnd.length := List.length_pos_iff.mpr hne2
      simp only [List.length_append]; omega
    simp only [List.nil_append, hp, Bool.and_self, if_true, hd, hl, textPos, List.foldl_nil, List.reverse_nil]
  | cons c t ih =>
    intro st hv hk he
    obtain ⟨pos, start, pend, toks, inVerb⟩ := st
    simp only at hv; subst hv
    have h0 : T.verbEnd.isPrefixOf (c :: t ++ T.verbEnd ++ tail) = false := by
      have := hk 0 (by simp)
      simpa using this
    have hc : some c ≠ T.eofByte := he c (by simp)
    conv => lhs; rw [run.eq_def]
    simp only [List.cons_append, List.append_assoc] at h0 ⊢
    simp only [h0, hc, Bool.and_false, Bool.not_true, Bool.false_and, Bool.false_eq_true, if_false]
    have := ih ⟨pos.step c, start, c :: pend, toks, true⟩ rfl
      (by intro k hk'
          have := hk (k + 1) (by simp; omega)
          simpa [List.append_assoc] using this)
      (fun c hc' => he c (by simp [hc']))
    simp only [List.append_assoc] at this
    rw [this]
    simp [textPos]

end Pongo

/-
  Whole-tree soundness of the tag sandbox: in everything the document parser compiles — the
  template itself, the bodies of its tags at any depth, its blocks and macros, and every template
  that `extends` / `include` / `import` / `ssi` pull in from the loaders while compiling — every tag
  node was admitted by `parseTag`'s check: its name is registered and not banned.

  One induction on the fuel over the eight functions of the document parser (the twenty-three tag
  parsers as one case analysis); nothing is assumed about the sources.
-/
import Pongo.Model.ParseDoc
import Pongo.Lemmas.ParseAll

namespace Pongo

section
variable (Tg : Bytes → Prop)

/-- every tag node of the tree, at any depth, carries a tag name satisfying `Tg` -/
inductive TagsOK : Node → Prop
  | html (val tl tr a b o) : TagsOK (.html val tl tr a b o)
  | var (e p) : TagsOK (.var e p)
  | tagAutoescape (on body) : Tg b!"autoescape" → (∀ n ∈ body, TagsOK n) → TagsOK (.tagAutoescape on body)
  | tagBlock (name) : Tg b!"block" → TagsOK (.tagBlock name)
  | tagComment : Tg b!"comment" → TagsOK .tagComment
  | tagCycle (id args asName silent) : Tg b!"cycle" → TagsOK (.tagCycle id args asName silent)
  | tagExtends : Tg b!"extends" → TagsOK .tagExtends
  | tagFilter (chain body p) : Tg b!"filter" → (∀ n ∈ body, TagsOK n) → TagsOK (.tagFilter chain body p)
  | tagFirstof (args) : Tg b!"firstof" → TagsOK (.tagFirstof args)
  | tagFor (key value obj r s body empty) : Tg b!"for" → (∀ n ∈ body, TagsOK n) →
      (∀ eb, empty = some eb → ∀ n ∈ eb, TagsOK n) → TagsOK (.tagFor key value obj r s body empty)
  | tagIf (conds bodies) : Tg b!"if" → (∀ b ∈ bodies, ∀ n ∈ b, TagsOK n) → TagsOK (.tagIf conds bodies)
  | tagIfchanged (id watch t e) : Tg b!"ifchanged" → (∀ n ∈ t, TagsOK n) →
      (∀ eb, e = some eb → ∀ n ∈ eb, TagsOK n) → TagsOK (.tagIfchanged id watch t e)
  | tagIfEqual (a b t e) : Tg b!"ifequal" → (∀ n ∈ t, TagsOK n) →
      (∀ eb, e = some eb → ∀ n ∈ eb, TagsOK n) → TagsOK (.tagIfEqual a b t e)
  | tagIfNotEqual (a b t e) : Tg b!"ifnotequal" → (∀ n ∈ t, TagsOK n) →
      (∀ eb, e = some eb → ∀ n ∈ eb, TagsOK n) → TagsOK (.tagIfNotEqual a b t e)
  | tagImport (binds) : Tg b!"import" → TagsOK (.tagImport binds)
  | tagInclude (src only pairs) : Tg b!"include" → TagsOK (.tagInclude src only pairs)
  | tagLorem (c m r p) : Tg b!"lorem" → TagsOK (.tagLorem c m r p)
  | tagMacro (idx) : Tg b!"macro" → TagsOK (.tagMacro idx)
  | tagNow (f k) : Tg b!"now" → TagsOK (.tagNow f k)
  | tagSet (name e) : Tg b!"set" → TagsOK (.tagSet name e)
  | tagSpaceless (body) : Tg b!"spaceless" → (∀ n ∈ body, TagsOK n) → TagsOK (.tagSpaceless body)
  | tagSsi (content ti) : Tg b!"ssi" → TagsOK (.tagSsi content ti)
  | tagTemplatetag (content) : Tg b!"templatetag" → TagsOK (.tagTemplatetag content)
  | tagWidthratio (c m w asName) : Tg b!"widthratio" → TagsOK (.tagWidthratio c m w asName)
  | tagWith (pairs body) : Tg b!"with" → (∀ n ∈ body, TagsOK n) → TagsOK (.tagWith pairs body)

def NodesTags (ns : List Node) : Prop := ∀ n ∈ ns, TagsOK Tg n

def TplTags (t : Tpl) : Prop := NodesTags Tg t.nodes ∧ ∀ kv ∈ t.blocks, NodesTags Tg kv.2

/-- every compiled template (its nodes and block bodies) and every macro body -/
def WorldTags (cs : CState) : Prop := (∀ i : Nat, TplTags Tg (cs.tpls[i]!)) ∧ (∀ i : Nat, NodesTags Tg (cs.macros[i]!).body)

structure DInvT (ds : DS) : Prop where
  world : WorldTags Tg ds.cs
  blocks : ∀ kv ∈ ds.ts.blocks, NodesTags Tg kv.2

end

section
variable {Tg : Bytes → Prop}

theorem tplTags_default : TplTags Tg (default : Tpl) :=
  ⟨(by intro n hn; cases hn), (by intro kv hkv; cases hkv)⟩

theorem nodesTags_nil : NodesTags Tg [] := by intro n hn; cases hn

theorem macroTags_default : NodesTags Tg (default : MacroDef).body := by intro n hn; cases hn

theorem snocT {α} {P : α → Prop} {xs : List α} {x : α} (h : ∀ y ∈ xs, P y) (hx : P x) : ∀ y ∈ xs ++ [x], P y := by
  intro y hy
  rcases List.mem_append.mp hy with h1 | h1
  · exact h y h1
  · simp only [List.mem_singleton] at h1
    subst h1
    exact hx

theorem pushT {α} [Inhabited α] {P : α → Prop} {xs : Array α} {x : α} (h : ∀ i : Nat, P (xs[i]!)) (hx : P x) :
    ∀ i : Nat, P ((xs.push x)[i]!) := by
  intro i
  rw [Array.getElem!_eq_getD, Array.getD_eq_getD_getElem?, Array.getElem?_push]
  split
  · exact hx
  · have := h i
    rwa [Array.getElem!_eq_getD, Array.getD_eq_getD_getElem?] at this

theorem setT {α} [Inhabited α] {P : α → Prop} {xs : Array α} {x : α} (k : Nat) (hd : P default) (h : ∀ i : Nat, P (xs[i]!)) (hx : P x) :
    ∀ i : Nat, P ((xs.set! k x)[i]!) := by
  intro i
  rw [Array.set!_eq_setIfInBounds, Array.getElem!_eq_getD, Array.getD_eq_getD_getElem?, Array.getElem?_setIfInBounds]
  split
  · split
    · exact hx
    · exact hd
  · have := h i
    rwa [Array.getElem!_eq_getD, Array.getD_eq_getD_getElem?] at this

theorem tg_of {x y : Bytes} (h : (x == y) = true) (hT : Tg x) : Tg y := by
  have : x = y := by simpa using h
  rw [← this]; exact hT

end

section
variable (T : LexTables) (cfg : SetCfg) (Tg : Bytes → Prop)

/-- the functions of the document parser, at one fuel level -/
structure AllDocT (fuel : Nat) : Prop where
  compileTpl : ∀ cs name isStr src, WorldTags Tg cs → POK (fun r => WorldTags Tg r.2) (compileTpl T cfg fuel cs name isStr src)
  fromFile : ∀ cs name, WorldTags Tg cs → POK (fun r => WorldTags Tg r.2) (fromFile T cfg fuel cs name)
  parseDocument : ∀ acc prev ds, NodesTags Tg acc → DInvT Tg ds →
    POK (fun r => NodesTags Tg r.1 ∧ DInvT Tg r.2) (parseDocument T cfg fuel acc prev ds)
  parseDocElement : ∀ prev ds, DInvT Tg ds → POK (fun r => TagsOK Tg r.1 ∧ DInvT Tg r.2.2) (parseDocElement T cfg fuel prev ds)
  parseTag : ∀ ds, DInvT Tg ds → POK (fun r => TagsOK Tg r.1 ∧ DInvT Tg r.2.2) (parseTag T cfg fuel ds)
  wrapUntil : ∀ names acc prev ds, NodesTags Tg acc → DInvT Tg ds →
    POK (fun r => NodesTags Tg r.1 ∧ DInvT Tg r.2.2.2.2) (wrapUntil T cfg fuel names acc prev ds)
  tagParser : ∀ start close args ds, Tg start.val → DInvT Tg ds →
    POK (fun r => TagsOK Tg r.1 ∧ DInvT Tg r.2.2) (tagParser T cfg fuel start close args ds)
  ifBranches : ∀ conds bodies prev ds, Tg b!"if" → (∀ b ∈ bodies, NodesTags Tg b) → DInvT Tg ds →
    POK (fun r => TagsOK Tg r.1 ∧ DInvT Tg r.2.2) (ifBranches T cfg fuel conds bodies prev ds)

theorem allDocT_zero : AllDocT T cfg Tg 0 := by
  constructor <;> intros <;>
    first
    | (rw [compileTpl]; exact pok_error _)
    | (rw [fromFile]; exact pok_error _)
    | (rw [parseDocument]; exact pok_error _)
    | (rw [parseDocElement]; exact pok_error _)
    | (rw [parseTag]; exact pok_error _)
    | (rw [wrapUntil]; exact pok_error _)
    | (rw [tagParser]; exact pok_error _)
    | (rw [ifBranches]; exact pok_error _)

end

section steps
variable {T : LexTables} {cfg : SetCfg} {Tg : Bytes → Prop}
  (hTg : ∀ x, cfg.regTags.elem x = true → cfg.bannedTags.elem x = false → Tg x) {n : Nat} (ih : AllDocT T cfg Tg n)
include ih

theorem compileTplT_succ (cs : CState) (name : Bytes) (isStr : Bool) (src : Bytes) (hw : WorldTags Tg cs) :
    POK (fun r => WorldTags Tg r.2) (compileTpl T cfg (n + 1) cs name isStr src) := by
  rw [compileTpl]
  split
  · exact pok_error _
  · exact pok_error _
  · simp only []
    refine pok_bind (ih.parseDocument [] none _ nodesTags_nil
      ⟨⟨pushT hw.1 ⟨nodesTags_nil, (by intro kv hkv; cases hkv)⟩, hw.2⟩, (by intro kv hkv; cases hkv)⟩) fun r hr => ?_
    exact pok_pure ⟨setT _ tplTags_default hr.2.world.1 ⟨hr.1, hr.2.blocks⟩, hr.2.world.2⟩

theorem fromFileT_succ (cs : CState) (name : Bytes) (hw : WorldTags Tg cs) :
    POK (fun r => WorldTags Tg r.2) (fromFile T cfg (n + 1) cs name) := by
  rw [fromFile]
  simp only []
  split
  · exact pok_error _
  · exact ih.compileTpl _ _ _ _ ⟨hw.1, hw.2⟩

theorem parseDocumentT_succ (acc : List Node) (prev : Option Tok) (ds : DS) (hacc : NodesTags Tg acc) (hd : DInvT Tg ds) :
    POK (fun r => NodesTags Tg r.1 ∧ DInvT Tg r.2) (parseDocument T cfg (n + 1) acc prev ds) := by
  rw [parseDocument]
  split
  · exact pok_pure ⟨hacc, hd⟩
  · refine pok_bind (ih.parseDocElement prev ds hd) fun r hr => ?_
    exact ih.parseDocument _ _ _ (snocT hacc hr.1) hr.2

theorem parseDocElementT_succ (prev : Option Tok) (ds : DS) (hd : DInvT Tg ds) :
    POK (fun r => TagsOK Tg r.1 ∧ DInvT Tg r.2.2) (parseDocElement T cfg (n + 1) prev ds) := by
  rw [parseDocElement.eq_def]
  simp only []
  split
  · exact pok_error _
  · split
    · exact pok_pure ⟨TagsOK.html _ _ _ _ _ _, ⟨hd.world, hd.blocks⟩⟩
    · split
      · refine pok_bind (P := fun _ => True) (fun _ _ => trivial) fun r _ => ?_
        obtain ⟨e, p⟩ := r
        simp only []
        split
        · split
          · exact pok_pure ⟨TagsOK.var _ _, ⟨hd.world, hd.blocks⟩⟩
          · exact pok_error _
        · exact pok_error _
      · split
        · exact ih.parseTag _ ⟨hd.world, hd.blocks⟩
        · exact pok_error _
    · exact pok_error _

include hTg in
theorem parseTagT_succ (ds : DS) (hd : DInvT Tg ds) :
    POK (fun r => TagsOK Tg r.1 ∧ DInvT Tg r.2.2) (parseTag T cfg (n + 1) ds) := by
  rw [parseTag]
  split
  · exact pok_error _
  · rename_i nameTok p hm
    split
    · exact pok_error _
    · rename_i hreg
      split
      · exact pok_error _
      · rename_i hban
        simp only []
        split
        · exact pok_error _
        · split
          · exact pok_error _
          · refine pok_bind (ih.tagParser nameTok _ _ _ (hTg _ (by simpa using hreg) (by simpa using hban))
              ⟨hd.world, hd.blocks⟩) fun r hr => ?_
            exact pok_pure ⟨hr.1, ⟨hr.2.world, hr.2.blocks⟩⟩

theorem wrapUntilT_succ (names : List Bytes) (acc : List Node) (prev : Option Tok) (ds : DS)
    (hacc : NodesTags Tg acc) (hd : DInvT Tg ds) :
    POK (fun r => NodesTags Tg r.1 ∧ DInvT Tg r.2.2.2.2) (wrapUntil T cfg (n + 1) names acc prev ds) := by
  rw [wrapUntil]
  split
  · exact pok_error _
  · simp only []
    split
    · split
      · exact pok_error _
      · exact pok_pure ⟨hacc, ⟨hd.world, hd.blocks⟩⟩
    · refine pok_bind (ih.parseDocElement prev ds hd) fun r hr => ?_
      exact ih.wrapUntil _ _ _ _ (snocT hacc hr.1) hr.2

theorem ifBranchesT_succ (conds : List Expr) (bodies : List (List Node)) (prev : Option Tok) (ds : DS)
    (hif : Tg b!"if") (hb : ∀ b ∈ bodies, NodesTags Tg b) (hd : DInvT Tg ds) :
    POK (fun r => TagsOK Tg r.1 ∧ DInvT Tg r.2.2) (ifBranches T cfg (n + 1) conds bodies prev ds) := by
  rw [ifBranches]
  refine pok_bind (ih.wrapUntil _ [] prev ds nodesTags_nil hd) fun r hr => ?_
  obtain ⟨body, endtag, tagArgs, last, ds1⟩ := r
  simp only []
  have hb' : ∀ b ∈ bodies ++ [body], NodesTags Tg b := snocT hb hr.1
  split
  · exact pok_error _
  split
  · refine pok_bind (P := fun _ => True) (fun _ _ => trivial) fun r2 _ => ?_
    obtain ⟨c, ta⟩ := r2
    simp only []
    split
    · exact pok_error _
    · exact ih.ifBranches _ _ _ _ hif hb' hr.2
  · split
    · exact pok_error _
    · split
      · exact pok_pure ⟨TagsOK.tagIf _ _ hif hb', hr.2⟩
      · exact ih.ifBranches _ _ _ _ hif hb' hr.2

end steps

section tagstep
variable {T : LexTables} {cfg : SetCfg} {Tg : Bytes → Prop} {n : Nat} (ih : AllDocT T cfg Tg n)
include ih

/-- a bind whose result does not matter for the invariant -/
local macro "skip_bind" r:ident : tactic =>
  `(tactic| refine pok_bind (P := fun _ => True) (fun _ _ => trivial) fun $r _ => ?_)

theorem tagParserT_succ (start close : Tok) (args : PS) (ds : DS) (hT : Tg start.val) (hd : DInvT Tg ds) :
    POK (fun r => TagsOK Tg r.1 ∧ DInvT Tg r.2.2) (tagParser T cfg (n + 1) start close args ds) := by
  have nilN : NodesTags Tg [] := nodesTags_nil
  unfold tagParser
  by_cases h : (start.val == b!"autoescape") = true
  · rw [if_pos h]
    refine pok_bind (ih.wrapUntil _ [] (some close) ds nilN hd) fun r hr => ?_
    obtain ⟨body, e1, e2, last, ds1⟩ := r
    simp only []
    split
    · exact pok_error _
    · split
      · exact pok_error _
      · split
        · exact pok_error _
        · exact pok_pure ⟨TagsOK.tagAutoescape _ _ (tg_of h hT) hr.1, hr.2⟩
  rw [if_neg h]; clear h
  by_cases h : (start.val == b!"block") = true
  · rw [if_pos h]
    split
    · exact pok_error _
    · split
      · exact pok_error _
      · split
        · exact pok_error _
        · refine pok_bind (ih.wrapUntil _ [] (some close) ds nilN hd) fun r hr => ?_
          obtain ⟨body, e1, endargs, last, ds1⟩ := r
          simp only []
          skip_bind u
          split
          · exact pok_error _
          · exact pok_pure ⟨TagsOK.tagBlock _ (tg_of h hT), ⟨hr.2.world, snocT hr.2.blocks hr.1⟩⟩
  rw [if_neg h]; clear h
  by_cases h : (start.val == b!"comment") = true
  · rw [if_pos h]
    split
    · exact pok_error _
    · split
      · exact pok_error _
      · exact pok_pure ⟨TagsOK.tagComment (tg_of h hT), ⟨hd.world, hd.blocks⟩⟩
  rw [if_neg h]; clear h
  by_cases h : (start.val == b!"cycle") = true
  · rw [if_pos h]
    skip_bind r
    obtain ⟨es, asName, silent, args1⟩ := r
    simp only []
    split
    · exact pok_error _
    · split
      · exact pok_error _
      · exact pok_pure ⟨TagsOK.tagCycle _ _ _ _ (tg_of h hT), ⟨⟨hd.world.1, hd.world.2⟩, hd.blocks⟩⟩
  rw [if_neg h]; clear h
  by_cases h : (start.val == b!"extends") = true
  · rw [if_pos h]
    split
    · exact pok_error _
    · split
      · exact pok_error _
      · split
        · exact pok_error _
        · refine pok_bind (ih.fromFile ds.cs _ hd.world) fun r hr => ?_
          obtain ⟨pi, cs⟩ := r
          simp only []
          split
          · exact pok_error _
          · exact pok_pure ⟨TagsOK.tagExtends (tg_of h hT), ⟨hr, hd.blocks⟩⟩
  rw [if_neg h]; clear h
  by_cases h : (start.val == b!"filter") = true
  · rw [if_pos h]
    refine pok_bind (ih.wrapUntil _ [] (some close) ds nilN hd) fun r hr => ?_
    obtain ⟨body, e1, e2, last, ds1⟩ := r
    simp only []
    skip_bind r2
    obtain ⟨chain, args1⟩ := r2
    simp only []
    split
    · exact pok_error _
    · exact pok_pure ⟨TagsOK.tagFilter _ _ _ (tg_of h hT) hr.1, hr.2⟩
  rw [if_neg h]; clear h
  by_cases h : (start.val == b!"firstof") = true
  · rw [if_pos h]
    skip_bind r
    exact pok_pure ⟨TagsOK.tagFirstof _ (tg_of h hT), hd⟩
  rw [if_neg h]; clear h
  by_cases h : (start.val == b!"for") = true
  · rw [if_pos h]
    split
    · exact pok_error _
    · skip_bind r
      obtain ⟨valName, args2⟩ := r
      simp only []
      split
      · exact pok_error _
      · skip_bind r2
        obtain ⟨obj, args4⟩ := r2
        simp only []
        generalize args4.optIdent b!"reversed" = x5
        obtain ⟨rev, args5⟩ := x5
        simp only []
        generalize args5.optIdent b!"sorted" = x6
        obtain ⟨srt, args6⟩ := x6
        simp only []
        split
        · exact pok_error _
        · refine pok_bind (ih.wrapUntil _ [] (some close) ds nilN hd) fun r3 hr3 => ?_
          obtain ⟨body, endtag, endargs, last, ds1⟩ := r3
          simp only []
          split
          · exact pok_error _
          · split
            · refine pok_bind (ih.wrapUntil _ [] last ds1 nilN hr3.2) fun r4 hr4 => ?_
              obtain ⟨eb, e2, endargs2, last2, ds2⟩ := r4
              simp only []
              split
              · exact pok_error _
              · exact pok_pure ⟨TagsOK.tagFor _ _ _ _ _ _ _ (tg_of h hT) hr3.1 (by intro eb' he; cases he; exact hr4.1), hr4.2⟩
            · exact pok_pure ⟨TagsOK.tagFor _ _ _ _ _ _ _ (tg_of h hT) hr3.1 (by intro eb' he; cases he), hr3.2⟩
  rw [if_neg h]; clear h
  by_cases h : (start.val == b!"if") = true
  · rw [if_pos h]
    skip_bind r
    obtain ⟨c, args1⟩ := r
    simp only []
    split
    · exact pok_error _
    · exact ih.ifBranches _ _ _ _ (tg_of h hT) (by intro b hb; cases hb) hd
  rw [if_neg h]; clear h
  by_cases h : (start.val == b!"ifchanged") = true
  · rw [if_pos h]
    skip_bind r
    obtain ⟨es, args1⟩ := r
    simp only []
    split
    · exact pok_error _
    · refine pok_bind (ih.wrapUntil _ [] (some close) ds nilN hd) fun r3 hr3 => ?_
      obtain ⟨tb, endtag, endargs, last, ds1⟩ := r3
      simp only []
      split
      · exact pok_error _
      · have hd1 : DInvT Tg { ds1 with cs := { ds1.cs with nextId := ds1.cs.nextId + 1 } } :=
          ⟨⟨hr3.2.world.1, hr3.2.world.2⟩, hr3.2.blocks⟩
        split
        · refine pok_bind (ih.wrapUntil _ [] last _ nilN hd1) fun r4 hr4 => ?_
          obtain ⟨eb, e2, endargs2, last2, ds2⟩ := r4
          simp only []
          split
          · exact pok_error _
          · exact pok_pure ⟨TagsOK.tagIfchanged _ _ _ _ (tg_of h hT) hr3.1 (by intro eb' he; cases he; exact hr4.1), hr4.2⟩
        · exact pok_pure ⟨TagsOK.tagIfchanged _ _ _ _ (tg_of h hT) hr3.1 (by intro eb' he; cases he), hd1⟩
  rw [if_neg h]; clear h
  by_cases h : (start.val == b!"ifequal" || start.val == b!"ifnotequal") = true
  · rw [if_pos h]
    simp only []
    skip_bind r
    obtain ⟨a, args1⟩ := r
    simp only []
    skip_bind r2
    obtain ⟨c, args2⟩ := r2
    simp only []
    split
    · exact pok_error _
    · refine pok_bind (ih.wrapUntil _ [] (some close) ds nilN hd) fun r3 hr3 => ?_
      obtain ⟨tb, endtag, endargs, last, ds1⟩ := r3
      simp only []
      have hmk : ∀ e : Option (List Node), (∀ eb, e = some eb → NodesTags Tg eb) →
          TagsOK Tg (if (start.val == b!"ifequal") = true then Node.tagIfEqual a c tb e else Node.tagIfNotEqual a c tb e) := by
        intro e he
        split
        · rename_i h1
          exact TagsOK.tagIfEqual _ _ _ _ (tg_of h1 hT) hr3.1 he
        · rename_i h1
          have h2 : (start.val == b!"ifnotequal") = true := by
            rcases Bool.or_eq_true_iff.mp h with h3 | h3
            · exact absurd h3 h1
            · exact h3
          exact TagsOK.tagIfNotEqual _ _ _ _ (tg_of h2 hT) hr3.1 he
      split
      · exact pok_error _
      · split
        · refine pok_bind (ih.wrapUntil _ [] last ds1 nilN hr3.2) fun r4 hr4 => ?_
          obtain ⟨eb, e2, endargs2, last2, ds2⟩ := r4
          simp only []
          split
          · exact pok_error _
          · exact pok_pure ⟨hmk _ (by intro eb' he; cases he; exact hr4.1), hr4.2⟩
        · exact pok_pure ⟨hmk _ (by intro eb' he; cases he), hr3.2⟩
  rw [if_neg h]; clear h
  by_cases h : (start.val == b!"import") = true
  · rw [if_pos h]
    split
    · exact pok_error _
    · simp only []
      split
      · exact pok_error _
      · refine pok_bind (ih.fromFile ds.cs _ hd.world) fun r hr => ?_
        obtain ⟨ti, cs⟩ := r
        simp only []
        skip_bind binds
        exact pok_pure ⟨TagsOK.tagImport _ (tg_of h hT), ⟨hr, hd.blocks⟩⟩
  rw [if_neg h]; clear h
  by_cases h : (start.val == b!"include") = true
  · rw [if_pos h]
    refine pok_bind (P := fun r : IncludeSrc × PS × DS => DInvT Tg r.2.2) ?_ fun r hr => ?_
    · split
      · rename_i f args1 hm
        generalize args1.optIdent b!"if_exists" = x
        obtain ⟨ifExists, args2⟩ := x
        simp only []
        split
        · rename_i ti cs hff
          exact pok_pure ⟨ih.fromFile ds.cs _ hd.world _ hff, hd.blocks⟩
        · split
          · exact pok_pure ⟨⟨hd.world.1, hd.world.2⟩, hd.blocks⟩
          · exact pok_error _
      · skip_bind r
        obtain ⟨e, args1⟩ := r
        simp only []
        generalize args1.optIdent b!"if_exists" = x
        obtain ⟨ifExists, args2⟩ := x
        simp only []
        exact pok_pure hd
    · obtain ⟨src, args1, ds1⟩ := r
      simp only []
      split
      · exact pok_pure ⟨TagsOK.tagInclude _ _ _ (tg_of h hT), hr⟩
      · skip_bind r2
        obtain ⟨pairs, only, args2⟩ := r2
        simp only []
        split
        · exact pok_error _
        · exact pok_pure ⟨TagsOK.tagInclude _ _ _ (tg_of h hT), hr⟩
  rw [if_neg h]; clear h
  by_cases h : (start.val == b!"lorem") = true
  · rw [if_pos h]
    intro r hr
    repeat' (split at hr)
    all_goals first
      | (cases hr; exact ⟨TagsOK.tagLorem _ _ _ _ (tg_of h hT), hd⟩)
      | cases hr
  rw [if_neg h]; clear h
  by_cases h : (start.val == b!"macro") = true
  · rw [if_pos h]
    split
    · exact pok_error _
    · split
      · exact pok_error _
      · skip_bind r
        obtain ⟨params, args3⟩ := r
        simp only []
        generalize args3.optKw b!"export" = x
        obtain ⟨exported, args4⟩ := x
        simp only []
        split
        · exact pok_error _
        · refine pok_bind (ih.wrapUntil _ [] (some close) ds nilN hd) fun r3 hr3 => ?_
          obtain ⟨body, e1, endargs, last, ds1⟩ := r3
          simp only []
          split
          · exact pok_error _
          · split
            · exact pok_error _
            · refine pok_pure ⟨TagsOK.tagMacro _ (tg_of h hT), ⟨⟨hr3.2.world.1, pushT (P := fun md : MacroDef => NodesTags Tg md.body) hr3.2.world.2 hr3.1⟩, ?_⟩⟩
              simp only []
              split
              · exact hr3.2.blocks
              · exact hr3.2.blocks
  rw [if_neg h]; clear h
  by_cases h : (start.val == b!"now") = true
  · rw [if_pos h]
    intro r hr
    repeat' (split at hr)
    all_goals first
      | (cases hr; exact ⟨TagsOK.tagNow _ _ (tg_of h hT), hd⟩)
      | cases hr
  rw [if_neg h]; clear h
  by_cases h : (start.val == b!"set") = true
  · rw [if_pos h]
    split
    · exact pok_error _
    · split
      · exact pok_error _
      · skip_bind r
        obtain ⟨e, args3⟩ := r
        simp only []
        split
        · exact pok_error _
        · exact pok_pure ⟨TagsOK.tagSet _ _ (tg_of h hT), hd⟩
  rw [if_neg h]; clear h
  by_cases h : (start.val == b!"spaceless") = true
  · rw [if_pos h]
    refine pok_bind (ih.wrapUntil _ [] (some close) ds nilN hd) fun r hr => ?_
    obtain ⟨body, e1, e2, last, ds1⟩ := r
    simp only []
    split
    · exact pok_error _
    · exact pok_pure ⟨TagsOK.tagSpaceless _ (tg_of h hT) hr.1, hr.2⟩
  rw [if_neg h]; clear h
  by_cases h : (start.val == b!"ssi") = true
  · rw [if_pos h]
    split
    · exact pok_error _
    · rename_i f args1 hm
      split
      · simp only []
        refine pok_bind (ih.fromFile ds.cs _ hd.world) fun r hr => ?_
        obtain ⟨ti, cs⟩ := r
        simp only []
        split
        · exact pok_error _
        · exact pok_pure ⟨TagsOK.tagSsi _ _ (tg_of h hT), ⟨hr, hd.blocks⟩⟩
      · simp only []
        generalize tryLoaders (Path.abs [] (resolveFilename ds.ts.isString ds.ts.name f.val)) cfg.loaders 0 ds.cs.fetchLog = x
        obtain ⟨found, log⟩ := x
        simp only []
        split
        · exact pok_error _
        · split
          · exact pok_error _
          · exact pok_pure ⟨TagsOK.tagSsi _ _ (tg_of h hT), ⟨⟨hd.world.1, hd.world.2⟩, hd.blocks⟩⟩
  rw [if_neg h]; clear h
  by_cases h : (start.val == b!"templatetag") = true
  · rw [if_pos h]
    intro r hr
    repeat' (split at hr)
    all_goals first
      | (cases hr; exact ⟨TagsOK.tagTemplatetag _ (tg_of h hT), hd⟩)
      | cases hr
  rw [if_neg h]; clear h
  by_cases h : (start.val == b!"widthratio") = true
  · rw [if_pos h]
    skip_bind r1
    obtain ⟨c, args1⟩ := r1
    simp only []
    skip_bind r2
    obtain ⟨m, args2⟩ := r2
    simp only []
    skip_bind r3
    obtain ⟨w, args3⟩ := r3
    simp only []
    skip_bind r4
    obtain ⟨asName, args4⟩ := r4
    simp only []
    split
    · exact pok_error _
    · exact pok_pure ⟨TagsOK.tagWidthratio _ _ _ _ (tg_of h hT), hd⟩
  rw [if_neg h]; clear h
  by_cases h : (start.val == b!"with") = true
  · rw [if_pos h]
    split
    · exact pok_error _
    · refine pok_bind (ih.wrapUntil _ [] (some close) ds nilN hd) fun r hr => ?_
      obtain ⟨body, e1, endargs, last, ds1⟩ := r
      simp only []
      split
      · exact pok_error _
      · skip_bind pairs
        exact pok_pure ⟨TagsOK.tagWith _ _ (tg_of h hT) hr.1, hr.2⟩
  rw [if_neg h]; clear h
  exact pok_error _

end tagstep

/-- **every function of the document parser, every fuel** -/
theorem allDocT (T : LexTables) (cfg : SetCfg) {Tg : Bytes → Prop}
    (hTg : ∀ x, cfg.regTags.elem x = true → cfg.bannedTags.elem x = false → Tg x) : ∀ fuel, AllDocT T cfg Tg fuel
  | 0 => allDocT_zero T cfg Tg
  | n + 1 =>
    have ih := allDocT T cfg hTg n
    { compileTpl := compileTplT_succ ih
      fromFile := fromFileT_succ ih
      parseDocument := parseDocumentT_succ ih
      parseDocElement := parseDocElementT_succ ih
      parseTag := parseTagT_succ hTg ih
      wrapUntil := wrapUntilT_succ ih
      tagParser := tagParserT_succ ih
      ifBranches := ifBranchesT_succ ih }

theorem worldTags_empty {Tg : Bytes → Prop} : WorldTags Tg ({} : CState) :=
  ⟨fun i => by simpa using tplTags_default, fun i => by simpa using macroTags_default⟩

end Pongo

/-
  Autoescape as an invariant of the whole interpreter (C02), part 4: one simultaneous induction
  on the fuel over the functions of the mutual block.
-/
import Pongo.Lemmas.CleanFilters
import Pongo.Lemmas.ParseDocAll

namespace Pongo

section
variable {L : Bytes → Prop} (T : LexTables) (cfg : SetCfg) (g : Env)

def ArgsOK (call : Option (List Expr)) : Prop := ∀ args, call = some args → ∀ a ∈ args, ExprOK a

structure AllSat (L : Bytes → Prop) (fuel : Nat) : Prop where
  eval : ∀ e, ExprOK e → Sat L (VOK L) (eval T cfg g fuel e)
  evalArrayItems : ∀ es, (∀ e ∈ es, ExprOK e) → Sat L (fun vs => ∀ v ∈ vs, VOK L v) (evalArrayItems T cfg g fuel es)
  evalList : ∀ es, (∀ e ∈ es, ExprOK e) → Sat L (fun vs => ∀ v ∈ vs, VOK L v) (evalList T cfg g fuel es)
  applyChain : ∀ c v, (∀ f ∈ c, FCallOK f) → VOK L v → Sat L (VOK L) (applyChain T cfg g fuel c v)
  resolve : ∀ ps, (∀ p ∈ ps, PartOK p) → Sat L (VOK L) (resolve T cfg g fuel ps)
  afterPart : ∀ v s c d, ValOK L v → ((d = true ∧ ∃ w s', v = Val.boxed w s') ∨ (s = true → SafeShape L v)) → ArgsOK c →
    Sat L (fun r => ∀ v' s', r = some (v', s') → VOK L ⟨v', s'⟩) (afterPart T cfg g fuel v s c d)
  resolveRest : ∀ ps v s, (∀ p ∈ ps, PartOK p) → VOK L ⟨v, s⟩ → Sat L (VOK L) (resolveRest T cfg g fuel ps v s)
  callFunc : ∀ f args, (∀ a ∈ args, VOK L a) → Sat L (VOK L) (callFunc T cfg g fuel f args)
  callMacro : ∀ a b args, (∀ x ∈ args, VOK L x) → Sat L (VOK L) (callMacro T cfg g fuel a b args)
  evalDefaults : ∀ ps, (∀ p ∈ ps, ∀ e, p.2 = some e → ExprOK e) → Sat L (fun r => ∀ kv ∈ r, ValOK L kv.2) (evalDefaults T cfg g fuel ps)
  callSuper : ∀ a b c, Sat L (VOK L) (callSuper T cfg g fuel a b c)
  evalPairs : ∀ ps, (∀ p ∈ ps, ExprOK p.2) → Sat L (fun r => ∀ kv ∈ r, ValOK L kv.2) (evalPairs T cfg g fuel ps)
  firstof : ∀ es, (∀ e ∈ es, ExprOK e) → Sat L (fun _ => True) (firstof T cfg g fuel es)
  executeTpl : ∀ a ctx, EnvOK L ctx → Sat L (fun _ => True) (executeTpl T cfg g fuel a ctx)
  executeTplUnbuffered : ∀ a ctx, EnvOK L ctx → Sat L (fun _ => True) (executeTplUnbuffered T cfg g fuel a ctx)
  execNodes : ∀ ns, NodesOK L ns → Sat L (fun _ => True) (execNodes T cfg g fuel ns)
  execNode : ∀ n, NodeOK L n → Sat L (fun _ => True) (execNode T cfg g fuel n)
  ifChain : ∀ cs bodies i, (∀ c ∈ cs, ExprOK c) → (∀ b ∈ bodies, NodesOK L b) → Sat L (fun _ => True) (ifChain T cfg g fuel cs bodies i)
  forLoop : ∀ key value body parent items idx count f l, NodesOK L body → ValOK L parent →
    (∀ it ∈ items, ValOK L it.1 ∧ ∀ vv, it.2 = some vv → ValOK L vv) →
    Sat L (fun _ => True) (forLoop T cfg g fuel key value body parent items idx count f l)

theorem allSat_zero : AllSat T cfg g L 0 := by
  constructor <;> intros <;>
    first
    | (rw [eval]; exact sat_xerr _ _)
    | (rw [evalArrayItems]; exact sat_xerr _ _)
    | (rw [evalList]; exact sat_xerr _ _)
    | (rw [applyChain]; exact sat_xerr _ _)
    | (rw [resolve]; exact sat_xerr _ _)
    | (rw [afterPart]; exact sat_xerr _ _)
    | (rw [resolveRest]; exact sat_xerr _ _)
    | (rw [callFunc]; exact sat_xerr _ _)
    | (rw [callMacro]; exact sat_xerr _ _)
    | (rw [evalDefaults]; exact sat_xerr _ _)
    | (rw [callSuper]; exact sat_xerr _ _)
    | (rw [evalPairs]; exact sat_xerr _ _)
    | (rw [firstof]; exact sat_xerr _ _)
    | (rw [executeTpl]; exact sat_xerr _ _)
    | (rw [executeTplUnbuffered]; exact sat_xerr _ _)
    | (rw [execNodes]; exact sat_xerr _ _)
    | (rw [execNode]; exact sat_xerr _ _)
    | (rw [ifChain]; exact sat_xerr _ _)
    | (rw [forLoop]; exact sat_xerr _ _)

variable {T cfg g}

syntax "fuel_eq" : tactic
macro_rules
  | `(tactic| fuel_eq) => `(tactic| (simp only [Nat.succ_eq_add_one, Nat.add_right_cancel_iff] at *; subst_vars))

theorem forall_cons {α} {P : α → Prop} {a : α} {l : List α} (ha : P a) (hl : ∀ x ∈ l, P x) : ∀ x ∈ a :: l, P x := by
  intro x hx
  rcases List.mem_cons.mp hx with rfl | h
  · exact ha
  · exact hl x h

theorem evalList_succ {n : Nat} (ih : AllSat T cfg g L n) (es : List Expr) (h : ∀ e ∈ es, ExprOK e) :
    Sat L (fun vs => ∀ v ∈ vs, VOK L v) (evalList T cfg g (n + 1) es) := by
  rw [evalList.eq_def]
  split
  · exact sat_xerr _ _
  · exact sat_pure (by intro v hv; cases hv)
  · fuel_eq
    refine sat_bind (ih.eval _ (h _ List.mem_cons_self)) fun v hv => ?_
    refine sat_bind (ih.evalList _ (fun e he => h e (List.mem_cons_of_mem _ he))) fun vs hvs => ?_
    exact sat_pure (forall_cons hv hvs)

theorem evalArrayItems_succ {n : Nat} (ih : AllSat T cfg g L n) (es : List Expr) (h : ∀ e ∈ es, ExprOK e) :
    Sat L (fun vs => ∀ v ∈ vs, VOK L v) (evalArrayItems T cfg g (n + 1) es) := by
  rw [evalArrayItems.eq_def]
  split
  · exact sat_xerr _ _
  · exact sat_pure (by intro v hv; cases hv)
  · fuel_eq
    refine sat_bind (P := VOK L) (ih.eval _ (h _ List.mem_cons_self)) fun v hv => ?_
    · refine sat_bind (ih.evalArrayItems _ (fun e he => h e (List.mem_cons_of_mem _ he))) fun vs hvs => ?_
      exact sat_pure (forall_cons hv hvs)

theorem evalPairs_succ {n : Nat} (ih : AllSat T cfg g L n) (ps : List (Bytes × Expr)) (h : ∀ p ∈ ps, ExprOK p.2) :
    Sat L (fun r => ∀ kv ∈ r, ValOK L kv.2) (evalPairs T cfg g (n + 1) ps) := by
  rw [evalPairs.eq_def]
  split
  · exact sat_xerr _ _
  · exact sat_pure (by intro v hv; cases hv)
  · fuel_eq
    refine sat_bind (ih.eval _ (h _ List.mem_cons_self)) fun v hv => ?_
    refine sat_bind (ih.evalPairs _ (fun e he => h e (List.mem_cons_of_mem _ he))) fun vs hvs => ?_
    exact sat_pure (forall_cons (P := fun kv : Bytes × Val => ValOK L kv.2) (ValOK.boxed _ _ hv.1 hv.2) hvs)

theorem evalDefaults_succ {n : Nat} (ih : AllSat T cfg g L n) (ps : List (Bytes × Option Expr))
    (h : ∀ p ∈ ps, ∀ e, p.2 = some e → ExprOK e) :
    Sat L (fun r => ∀ kv ∈ r, ValOK L kv.2) (evalDefaults T cfg g (n + 1) ps) := by
  rw [evalDefaults.eq_def]
  split
  · exact sat_xerr _ _
  · exact sat_pure (by intro v hv; cases hv)
  · fuel_eq
    refine sat_bind (P := ValOK L) ?_ fun v hv => ?_
    · split
      · refine sat_bind (ih.eval _ (h _ List.mem_cons_self _ rfl)) fun r hr => ?_
        exact sat_pure (ValOK.boxed _ _ hr.1 hr.2)
      · exact sat_pure ValOK.nil
    · refine sat_bind (ih.evalDefaults _ (fun e he => h e (List.mem_cons_of_mem _ he))) fun vs hvs => ?_
      exact sat_pure (forall_cons (P := fun kv : Bytes × Val => ValOK L kv.2) hv hvs)

theorem execNodes_succ {n : Nat} (ih : AllSat T cfg g L n) (ns : List Node) (h : NodesOK L ns) :
    Sat L (fun _ => True) (execNodes T cfg g (n + 1) ns) := by
  rw [execNodes.eq_def]
  split
  · exact sat_xerr _ _
  · exact sat_pure trivial
  · fuel_eq
    refine sat_bind (ih.execNode _ (h _ List.mem_cons_self)) fun _ _ => ?_
    exact ih.execNodes _ (fun e he => h e (List.mem_cons_of_mem _ he))

theorem filterApplied_safe_false : (e : Expr) → ExprOK e → filterApplied b!"safe" e = false
  | .filtered e chain p, he => by
    unfold filterApplied
    cases he with
    | filtered e chain p _ hc =>
      simp only [List.any_eq_false]
      intro f hf
      have := hc f hf
      cases this with
      | mk name param p hn _ => simpa using hn
  | .unary _ _ e, he => by
    unfold filterApplied
    cases he with
    | unary _ _ e he => exact filterApplied_safe_false e he
  | .bin op a c p, he => by
    unfold filterApplied
    cases he with
    | bin op a c p ha hc => simp [filterApplied_safe_false a ha]
  | .str .., _ => by unfold filterApplied; rfl
  | .int .., _ => by unfold filterApplied; rfl
  | .float .., _ => by unfold filterApplied; rfl
  | .bool .., _ => by unfold filterApplied; rfl
  | .var .., _ => by unfold filterApplied; rfl
  | .arr .., _ => by unfold filterApplied; rfl

theorem firstof_succ {n : Nat} (ih : AllSat T cfg g L n) (es : List Expr) (h : ∀ e ∈ es, ExprOK e) :
    Sat L (fun _ => True) (firstof T cfg g (n + 1) es) := by
  rw [firstof.eq_def]
  split
  · exact sat_xerr _ _
  · exact sat_pure trivial
  · fuel_eq
    refine sat_bind (ih.eval _ (h _ List.mem_cons_self)) fun v hv => ?_
    split
    · refine sat_bind sat_cur fun fr hfr => ?_
      rw [filterApplied_safe_false _ (h _ List.mem_cons_self), hfr.2.2]
      exact sat_write (firstofText_clean _)
    · exact ih.firstof _ (fun e he => h e (List.mem_cons_of_mem _ he))

theorem ifChain_succ {n : Nat} (ih : AllSat T cfg g L n) (cs : List Expr) (bodies : List (List Node)) (i : Nat)
    (h : ∀ c ∈ cs, ExprOK c) (hb : ∀ b ∈ bodies, NodesOK L b) :
    Sat L (fun _ => True) (ifChain T cfg g (n + 1) cs bodies i) := by
  have hget : ∀ j, NodesOK L (bodies.getD j []) := by
    intro j
    rw [List.getD_eq_getElem?_getD]
    cases hj : bodies[j]? with
    | none => intro x hx; cases hx
    | some b => exact hb b (List.mem_of_getElem? hj)
  rw [ifChain.eq_def]
  split
  · exact sat_xerr _ _
  · exact sat_pure trivial
  · fuel_eq
    refine sat_bind (ih.eval _ (h _ List.mem_cons_self)) fun v hv => ?_
    split
    · exact ih.execNodes _ (hget _)
    · split
      · exact ih.execNodes _ (hget _)
      · exact ih.ifChain _ _ _ (fun e he => h e (List.mem_cons_of_mem _ he)) hb

theorem executeTpl_succ {n : Nat} (ih : AllSat T cfg g L n) (ti : Nat) (ctx : Env) (h : EnvOK L ctx) :
    Sat L (fun _ => True) (executeTpl T cfg g (n + 1) ti ctx) := by
  rw [executeTpl.eq_def]
  split
  · exact sat_xerr _ _
  · fuel_eq
    refine sat_bind (sat_buffered (ih.executeTplUnbuffered _ _ h)) fun out hout => ?_
    exact sat_write hout

theorem vok_mkV {v : Val} (h : ValOK L v) : VOK L (mkV v) := ⟨h, by simp [mkV]⟩

theorem valOK_negate (v : Val) : ValOK L v.negate := by
  unfold Val.negate
  repeat' (first | exact ValOK.int _ | exact ValOK.float _ | exact ValOK.bool _ | exact ValOK.nil | split)

theorem evalUnary_vok {neg negSign : Bool} {a r : V} (ha : VOK L a) (h : evalUnary neg negSign a = .ok r) : VOK L r := by
  have h0 : VOK L (if neg then mkV a.v.negate else a) := by
    split
    · exact vok_mkV (valOK_negate _)
    · exact ha
  generalize hr0 : (if neg then mkV a.v.negate else a) = r0 at h0
  have h' : (if negSign then (if r0.v.isNumber then (if r0.v.isFloat then Except.ok (mkV (.float (-1.0 * r0.v.toFloat)))
      else Except.ok (mkV (.int (-1 * r0.v.toInt)))) else Except.error "Negative sign on a non-number expression") else Except.ok r0) = Except.ok r := by
    rw [← hr0]; exact h
  cases hs : negSign
  · simp only [hs, Bool.false_eq_true, ↓reduceIte, Except.ok.injEq] at h'
    rw [← h']; exact h0
  · by_cases h1 : r0.v.isNumber = true <;> by_cases h2 : r0.v.isFloat = true <;>
      simp only [hs, h1, h2, ↓reduceIte, Except.ok.injEq, reduceCtorEq] at h'
    · rw [← h']; exact vok_mkV (ValOK.float _)
    · rw [← h']; exact vok_mkV (ValOK.int _)

theorem evalBin_vok {op : BinOp} {a c r : V} (h : evalBin op a c = .ok r) : VOK L r := by
  unfold evalBin at h
  simp only [] at h
  cases op <;> simp only [] at h <;>
    repeat' (first
      | (cases h <;> first | exact vok_mkV (ValOK.bool _) | exact vok_mkV (ValOK.str _) | exact vok_mkV (ValOK.float _) | exact vok_mkV (ValOK.int _))
      | split at h)

theorem eval_succ {n : Nat} (ih : AllSat T cfg g L n) (e : Expr) (he : ExprOK e) :
    Sat L (VOK L) (eval T cfg g (n + 1) e) := by
  rw [eval.eq_def]
  split
  · exact sat_xerr _ _
  · fuel_eq
    split
    · exact sat_pure (vok_mkV (ValOK.str _))
    · exact sat_pure (vok_mkV (ValOK.int _))
    · exact sat_pure (vok_mkV (ValOK.float _))
    · exact sat_pure (vok_mkV (ValOK.bool _))
    · cases he with | var _ _ hp =>
      refine sat_tryCatch (ih.resolve _ hp) fun err => ?_
      split <;> exact sat_throw _
    · cases he with | arr _ _ hi =>
      refine sat_bind (ih.evalArrayItems _ hi) fun vs hvs => ?_
      refine sat_pure ⟨ValOK.list _ _ ?_, fun _ => Or.inr (Or.inl ⟨_, rfl, ?_⟩)⟩
      · intro x hx
        simp only [List.mem_map] at hx
        obtain ⟨v, hv, rfl⟩ := hx
        exact ValOK.boxed _ _ (hvs v hv).1 (hvs v hv).2
      · intro x hx
        simp only [List.mem_map] at hx
        obtain ⟨v, hv, rfl⟩ := hx
        exact ⟨_, _, rfl⟩
    · cases he with | filtered _ _ _ he hc =>
      refine sat_bind (ih.eval _ he) fun v hv => ?_
      exact ih.applyChain _ _ hc hv
    · cases he with | unary _ _ _ he =>
      refine sat_bind (ih.eval _ he) fun v hv => ?_
      split
      · rename_i r heq
        exact sat_pure (evalUnary_vok hv heq)
      · exact sat_xerr _ _
    · cases he with | bin _ _ _ _ ha hc =>
      refine sat_bind (ih.eval _ ha) fun v1 _ => ?_
      split
      · exact sat_pure (vok_mkV (ValOK.bool _))
      · refine sat_bind (ih.eval _ hc) fun v2 _ => ?_
        exact sat_pure (vok_mkV (ValOK.bool _))
    · cases he with | bin _ _ _ _ ha hc =>
      refine sat_bind (ih.eval _ ha) fun v1 _ => ?_
      split
      · exact sat_pure (vok_mkV (ValOK.bool _))
      · refine sat_bind (ih.eval _ hc) fun v2 _ => ?_
        exact sat_pure (vok_mkV (ValOK.bool _))
    · cases he with | bin _ _ _ _ ha hc =>
      refine sat_bind (ih.eval _ ha) fun v1 _ => ?_
      refine sat_bind (ih.eval _ hc) fun v2 _ => ?_
      split
      · rename_i r heq
        exact sat_pure (evalBin_vok heq)
      · exact sat_xerr _ _

theorem applyChain_succ {n : Nat} (ih : AllSat T cfg g L n) (c : List FCall) (v : V) (hc : ∀ f ∈ c, FCallOK f) (hv : VOK L v) :
    Sat L (VOK L) (applyChain T cfg g (n + 1) c v) := by
  rw [applyChain.eq_def]
  split
  · exact sat_xerr _ _
  · exact sat_pure hv
  · fuel_eq
    have h1 := hc _ List.mem_cons_self
    cases h1 with | mk _ _ _ hn hp =>
    refine sat_bind (P := VOK L) ?_ fun p hpv => ?_
    · split
      · exact ih.eval _ (hp _ rfl)
      · exact sat_pure (vok_mkV ValOK.nil)
    · split
      · rename_i r heq
        exact ih.applyChain _ _ (fun f hf => hc f (List.mem_cons_of_mem _ hf)) (applyFilter_vok hv hpv heq)
      · exact sat_xerr _ _
      · exact sat_xerr _ _

theorem unboxAll_vok : ∀ (inner : Val) (s : Bool), ValOK L inner → (s = true → SafeShape L inner) →
    VOK L ⟨(Val.unboxAll inner s).1, (Val.unboxAll inner s).2⟩ := by
  intro inner s
  fun_induction Val.unboxAll inner s with
  | case1 i s' _ ih =>
    intro h _
    cases h with | boxed _ _ hi hs => exact ih hi hs
  | case2 v s hne =>
    intro h hs
    exact ⟨h, hs⟩

theorem afterPart_succ {n : Nat} (ih : AllSat T cfg g L n) (v : Val) (s : Bool) (c : Option (List Expr)) (d : Bool)
    (hv : ValOK L v) (hs : (d = true ∧ ∃ w s', v = Val.boxed w s') ∨ (s = true → SafeShape L v)) (hc : ArgsOK c) :
    Sat L (fun r => ∀ v' s', r = some (v', s') → VOK L ⟨v', s'⟩) (afterPart T cfg g (n + 1) v s c d) := by
  rw [afterPart]
  · have hub : VOK L ⟨(unboxDirect v s d).1, (unboxDirect v s d).2⟩ := by
      unfold unboxDirect
      split
      · cases hv with | boxed _ _ hi hsafe => exact unboxAll_vok _ _ hi hsafe
      · rename_i hne
        refine ⟨hv, fun h => ?_⟩
        rcases hs with ⟨rfl, w, s', rfl⟩ | hs
        · exact (hne w s' rfl rfl).elim
        · exact hs h
    generalize unboxDirect v s d = ub at hub
    obtain ⟨uv, us⟩ := ub
    split
    · exact sat_pure (by intro v' s' h; cases h)
    · simp only []
      split
      · split
        · exact sat_xerr _ _
        · have hargs : ∀ a ∈ c.getD [], ExprOK a := by
            cases c with
            | none => intro a ha; cases ha
            | some args => exact hc args rfl
          refine sat_bind (ih.evalList _ hargs) fun args hargsv => ?_
          split
          · exfalso
            have := hub.1
            cases this
          · refine sat_bind (ih.callFunc _ _ hargsv) fun r hr => ?_
            split
            · exact sat_pure (by intro v' s' h; cases h)
            · exact sat_pure (by intro v' s' h; cases h; exact hr)
      · split
        · exact sat_pure (by intro v' s' h; cases h)
        · exact sat_pure (by intro v' s' h; cases h; exact hub)

theorem partOK_call {p : Part} (h : PartOK p) : ArgsOK p.callArgs := by
  cases h with
  | ident _ _ h => exact h
  | idx _ _ h => exact h
  | sub _ _ _ h => exact h

theorem resolve_succ {n : Nat} (ih : AllSat T cfg g L n) (ps : List Part) (hp : ∀ p ∈ ps, PartOK p) :
    Sat L (VOK L) (resolve T cfg g (n + 1) ps) := by
  rw [resolve.eq_def]
  split
  · exact sat_xerr _ _
  · fuel_eq
    split
    · exact sat_pure (vok_mkV ValOK.nil)
    · rename_i first rest
      refine sat_bind sat_cur fun fr hfr => ?_
      have hv0 : ∀ nm : Bytes, ValOK L (match fr.priv.lookup nm with
          | some v => v
          | none => (fr.pub.lookup nm).getD .nil) := by
        intro nm
        split
        · rename_i v heq; exact envOK_lookup hfr.1 heq
        · exact valOK_lookup_getD hfr.2.1 _
      refine sat_bind (ih.afterPart _ _ _ _ (hv0 _) (Or.inr (by intro h; cases h)) (partOK_call (hp _ List.mem_cons_self))) fun r hr => ?_
      split
      · exact sat_pure (vok_mkV ValOK.nil)
      · rename_i v safe
        exact ih.resolveRest _ _ _ (fun p h => hp p (List.mem_cons_of_mem _ h)) (hr _ _ rfl)

/-! ### one step into a value -/

theorem typedElems_listT (xs : List Val) : typedElems (.list listT xs) = true := by
  simp only [typedElems]; decide

/-- what `afterPart` needs to know about the value a step produced -/
def StepOK (L : Bytes → Prop) (cv : Val) (s : Bool) (nv : Val) : Prop :=
  ValOK L nv ∧ ((typedElems cv = true ∧ ∃ w s', nv = Val.boxed w s') ∨ (s = true → SafeShape L nv))

theorem seqAt_elem {xs : List Val} {s : Bool} {cv : Val} (hx : ∀ x ∈ xs, ValOK L x)
    (hs : s = true → SafeShape L cv) (hty : ∀ ys, SafeShape L cv → cv = .list listT ys → ys = xs)
    (hcv : (∃ ty, cv = .list ty xs) ∨ (∃ ty, cv = .arr ty xs)) (i : Int64) {nv : Val}
    (h : (if i ≥ 0 && xs.length > i.toNatClampNeg then some (xs.getD i.toNatClampNeg Val.nil) else none) = some nv) :
    StepOK L cv s nv := by
  split at h
  · rename_i hin
    cases h
    have hmem : xs.getD i.toNatClampNeg Val.nil ∈ xs := by
      have : i.toNatClampNeg < xs.length := by
        simp only [Bool.and_eq_true, decide_eq_true_eq] at hin; exact hin.2
      rw [List.getD_eq_getElem?_getD, List.getElem?_eq_getElem this]
      exact List.getElem_mem this
    refine ⟨hx _ hmem, ?_⟩
    cases hsb : s
    · exact Or.inr (by intro h; cases h)
    · have hsh := hs hsb
      rcases hsh with ⟨_, he, _⟩ | ⟨ys, he, hb⟩ | ⟨_, he⟩
      · rcases hcv with ⟨_, rfl⟩ | ⟨_, rfl⟩ <;> cases he
      · have := hty ys (hs hsb) he
        subst this
        exact Or.inl ⟨by rw [he]; exact typedElems_listT _, hb _ hmem⟩
      · rcases hcv with ⟨_, rfl⟩ | ⟨_, rfl⟩ <;> cases he
  · cases h

theorem seqAt_stepOK {cv : Val} {s : Bool} (hcv : ValOK L cv) (hs : s = true → SafeShape L cv) (i : Int64) {nv : Val}
    (h : seqAt cv i = some (some nv)) : StepOK L cv s nv := by
  have huint : ∀ u, StepOK L cv s (.uint u) := fun u => ⟨ValOK.uint _, Or.inr fun _ => Or.inr (Or.inr ⟨_, rfl⟩)⟩
  cases cv with
  | str sb =>
    simp only [seqAt, Option.some.injEq] at h
    split at h
    · cases h; exact huint _
    · cases h
  | list ty xs =>
    simp only [seqAt, Option.some.injEq] at h
    cases hcv with | list _ _ hx =>
    exact seqAt_elem hx hs (by intro ys _ he; cases he; rfl) (Or.inl ⟨_, rfl⟩) i h
  | arr ty xs =>
    simp only [seqAt, Option.some.injEq] at h
    cases hcv with | arr _ _ hx =>
    exact seqAt_elem hx hs (by intro ys _ he; cases he) (Or.inr ⟨_, rfl⟩) i h
  | stringer inner t =>
    cases inner <;> simp only [seqAt, Option.some.injEq, reduceCtorEq] at h
    split at h
    · cases h; exact huint _
    · cases h
  | _ => simp [seqAt] at h

theorem stepIndex_stepOK {cv : Val} {s : Bool} (hcv : ValOK L cv) (hs : s = true → SafeShape L cv) (i : Int64) {nv : Val}
    (h : stepIndex cv i = .ok (some nv)) : StepOK L cv s nv := by
  unfold stepIndex at h
  split at h
  · rename_i r heq
    cases h
    exact seqAt_stepOK hcv hs i heq
  · cases h

theorem safeShape_not_named {cv : Val} (h : SafeShape L cv) (nm : Bytes) : ∃ m, stepName cv nm = .error m := by
  rcases h with ⟨_, rfl, _⟩ | ⟨_, rfl, _⟩ | ⟨_, rfl⟩ <;> exact ⟨_, rfl⟩

theorem stepName_stepOK {cv : Val} {s : Bool} (hcv : ValOK L cv) (hs : s = true → SafeShape L cv) (nm : Bytes) {nv : Val}
    (h : stepName cv nm = .ok (some nv)) : StepOK L cv s nv := by
  cases hsb : s
  · refine ⟨?_, Or.inr (by intro h; cases h)⟩
    unfold stepName at h
    split at h <;> simp only [Except.ok.injEq, reduceCtorEq] at h
    · cases hcv with | struct _ _ _ hf => exact valOK_lookup hf h
    · cases hcv with | smap _ _ hf => exact valOK_lookup hf h
    · cases hcv with | stringer _ _ hi => cases hi with | struct _ _ _ hf => exact valOK_lookup hf h
  · obtain ⟨m, hm⟩ := safeShape_not_named (hs hsb) nm
    rw [hm] at h; cases h

theorem stepSub_stepOK {cv : Val} {s : Bool} (hcv : ValOK L cv) (hs : s = true → SafeShape L cv) (k : Val) {nv : Val}
    (h : stepSub cv k = .ok (some nv)) : StepOK L cv s nv := by
  cases cv with
  | str sb =>
    simp only [stepSub] at h
    generalize hr : seqAt (Val.str sb) k.toInt = r at h
    by_cases hk : indexLike k = true
    · cases r with
      | none => simp [hk] at h
      | some r => simp only [hk, if_true, Except.ok.injEq, Option.some.injEq] at h; subst h; exact seqAt_stepOK hcv hs _ hr
    · simp [hk] at h
  | list ty xs =>
    simp only [stepSub] at h
    generalize hr : seqAt (Val.list ty xs) k.toInt = r at h
    by_cases hk : indexLike k = true
    · cases r with
      | none => simp [hk] at h
      | some r => simp only [hk, if_true, Except.ok.injEq, Option.some.injEq] at h; subst h; exact seqAt_stepOK hcv hs _ hr
    · simp [hk] at h
  | arr ty xs =>
    simp only [stepSub] at h
    generalize hr : seqAt (Val.arr ty xs) k.toInt = r at h
    by_cases hk : indexLike k = true
    · cases r with
      | none => simp [hk] at h
      | some r => simp only [hk, if_true, Except.ok.injEq, Option.some.injEq] at h; subst h; exact seqAt_stepOK hcv hs _ hr
    · simp [hk] at h
  | stringer inner t =>
    cases inner <;> simp only [stepSub, reduceCtorEq] at h
    rename_i sb
    generalize hr : seqAt (Val.stringer (Val.str sb) t) k.toInt = r at h
    by_cases hk : indexLike k = true
    · cases r with
      | none => simp [hk] at h
      | some r => simp only [hk, if_true, Except.ok.injEq, Option.some.injEq] at h; subst h; exact seqAt_stepOK hcv hs _ hr
    · simp [hk] at h
  | struct n fs pv =>
    simp only [stepSub, Except.ok.injEq] at h
    cases hcv with | struct _ _ _ hf =>
    refine ⟨valOK_lookup hf h, Or.inr fun hsb => ?_⟩
    rcases hs hsb with ⟨_, he, _⟩ | ⟨_, he, _⟩ | ⟨_, he⟩ <;> cases he
  | smap ty kvs =>
    simp only [stepSub, Except.ok.injEq] at h
    cases hcv with | smap _ _ hf =>
    refine ⟨?_, Or.inr fun hsb => ?_⟩
    · split at h
      · exact valOK_lookup hf h
      · exact valOK_lookup hf h
      · cases h
    · rcases hs hsb with ⟨_, he, _⟩ | ⟨_, he, _⟩ | ⟨_, he⟩ <;> cases he
  | imap ty kvs =>
    simp only [stepSub, Except.ok.injEq] at h
    cases hcv with | imap _ _ hf =>
    refine ⟨?_, Or.inr fun hsb => ?_⟩
    · split at h
      · exact valOK_lookup hf h
      · exact valOK_lookup hf h
      · split at h
        · exact valOK_lookup hf h
        · cases h
      · cases h
    · rcases hs hsb with ⟨_, he, _⟩ | ⟨_, he, _⟩ | ⟨_, he⟩ <;> cases he
  | _ => simp [stepSub] at h

theorem goMethodAt_safeShape {v : Val} (h : SafeShape L v) (part : Part) : goMethodAt part v = none := by
  unfold goMethodAt
  rcases h with ⟨_, rfl, _⟩ | ⟨_, rfl, _⟩ | ⟨_, rfl⟩ <;> cases part <;> simp [goMethodOf]

theorem valOK_recvOf {v : Val} (h : ValOK L v) : ValOK L (recvOf v) := by
  unfold recvOf
  split
  · cases h with | ptr _ h => exact h
  · exact h

theorem goMethodRun_ok {name : Bytes} {recv rv : Val} {args : List V} {rs : Option Bool} (hr : ValOK L recv)
    (h : goMethodRun name recv args = .ok (rv, rs)) : ValOK L rv ∧ rs = none := by
  unfold goMethodRun at h
  repeat' (first
    | (simp only [Except.ok.injEq, Prod.mk.injEq, reduceCtorEq] at h; done)
    | (simp only [Except.ok.injEq, Prod.mk.injEq] at h
       obtain ⟨rfl, rfl⟩ := h
       refine ⟨?_, rfl⟩
       first
         | exact ValOK.str _ | exact ValOK.int _ | exact ValOK.nil
         | (cases hr with | struct _ _ _ hf => exact valOK_lookup_getD hf _))
    | split at h)

theorem derefStep_ok {v cv : Val} (hv : ValOK L v) (h : derefStep v = some cv) :
    ValOK L cv ∧ (SafeShape L v → cv = v) := by
  unfold derefStep at h
  split at h <;> simp only [Option.some.injEq, reduceCtorEq] at h
  · cases hv with | ptr _ hx =>
    subst h
    exact ⟨hx, fun hs => by rcases hs with ⟨_, he, _⟩ | ⟨_, he, _⟩ | ⟨_, he⟩ <;> cases he⟩
  · subst h
    exact ⟨ValOK.struct _ _ _ (by intro f hf; cases hf), fun hs => by rcases hs with ⟨_, he, _⟩ | ⟨_, he, _⟩ | ⟨_, he⟩ <;> cases he⟩
  · subst h
    exact ⟨ValOK.struct _ _ _ (by intro f hf; cases hf), fun hs => by rcases hs with ⟨_, he, _⟩ | ⟨_, he, _⟩ | ⟨_, he⟩ <;> cases he⟩
  · subst h
    exact ⟨hv, fun _ => rfl⟩

theorem resolveRest_succ {n : Nat} (ih : AllSat T cfg g L n) (ps : List Part) (v : Val) (s : Bool)
    (hp : ∀ p ∈ ps, PartOK p) (hv : VOK L ⟨v, s⟩) :
    Sat L (VOK L) (resolveRest T cfg g (n + 1) ps v s) := by
  rw [resolveRest.eq_def]
  split
  · exact sat_xerr _ _
  · exact sat_pure hv
  · fuel_eq
    rename_i v s _ _ _ _ fuel part rest
    have hrest : ∀ p ∈ rest, PartOK p := fun p h => hp p (List.mem_cons_of_mem _ h)
    have hpart : PartOK part := hp _ List.mem_cons_self
    have hargs : ∀ a ∈ part.callArgs.getD [], ExprOK a := by
      have := partOK_call hpart
      cases hc : part.callArgs with
      | none => intro a ha; cases ha
      | some args => exact this args hc
    split
    · -- block.Super
      refine sat_bind (ih.callSuper _ _ _) fun r hr => ?_
      split
      · exact sat_pure (vok_mkV ValOK.nil)
      · exact ih.resolveRest _ _ _ hrest hr
    · -- a Go method
      rename_i mname viaNil sig hsup hgm
      have hns : s = false := by
        cases hsb : s
        · rfl
        · have := goMethodAt_safeShape (hv.2 hsb) part
          rw [this] at hgm; cases hgm
      split
      · exact sat_pure (vok_mkV ValOK.nil)
      · refine sat_bind (ih.evalList _ hargs) fun args _ => ?_
        split
        · exact sat_xerr _ _
        · split
          · exact sat_xerr _ _
          · rename_i rv rs heq
            obtain ⟨hrv, hrs⟩ := goMethodRun_ok (valOK_recvOf hv.1) heq
            split
            · exact sat_pure (vok_mkV ValOK.nil)
            · refine ih.resolveRest _ _ _ hrest ⟨hrv, ?_⟩
              subst hrs hns
              intro h; cases h
    · -- a plain step
      split
      · exact sat_pure (vok_mkV ValOK.nil)
      · rename_i cv hcv
        obtain ⟨hcvok, hcveq⟩ := derefStep_ok hv.1 hcv
        have hcs : s = true → SafeShape L cv := by
          intro hsb
          rw [hcveq (hv.2 hsb)]; exact hv.2 hsb
        refine sat_bind (P := fun next => ∀ nv, next = some nv → StepOK L cv s nv) ?_ fun next hnext => ?_
        · split
          · exact sat_liftStep _ fun a ha nv hnv => stepIndex_stepOK hcvok hcs _ (by rw [ha, hnv])
          · exact sat_liftStep _ fun a ha nv hnv => stepName_stepOK hcvok hcs _ (by rw [ha, hnv])
          · cases hpart with | sub _ _ he _ =>
            split
            · refine sat_bind (ih.eval _ he) fun sv _ => ?_
              exact sat_liftStep _ fun a ha nv hnv => stepSub_stepOK hcvok hcs _ (by rw [ha, hnv])
            · exact sat_xerr _ _
        · split
          · exact sat_pure (vok_mkV ValOK.nil)
          · rename_i nv
            obtain ⟨hnv, hstep⟩ := hnext nv rfl
            split
            · exact sat_xerr _ _
            · refine sat_bind (ih.afterPart _ _ _ _ hnv hstep (partOK_call hpart)) fun r hr => ?_
              split
              · exact sat_pure (vok_mkV ValOK.nil)
              · exact ih.resolveRest _ _ _ hrest (hr _ _ rfl)

theorem frameOK_depth {f : Frame} (h : FrameOK L f) (d : Nat) : FrameOK L { f with macroDepth := d } := h

theorem sat_withFrameView {α} {Q : α → Prop} (fuel fid : Nat) {m : XM α} (hm : Sat L Q m) :
    Sat L Q (withFrameView T cfg g fuel fid m) := by
  cases fuel with
  | zero => rw [withFrameView]; exact sat_xerr _ _
  | succ k =>
    rw [withFrameView]
    refine sat_bind (sat_getFrame _) fun fr hfr => ?_
    refine sat_bind sat_get fun st hst => ?_
    refine sat_bind (sat_set (s := { st with frames := fr :: st.frames }) ?_) fun _ _ => ?_
    · exact ⟨hst.hout, forall_cons hfr hst.hframes, hst.hworld, hst.hchanged⟩
    · refine sat_tryCatch ?_ ?_
      · refine sat_bind hm fun r hr => ?_
        exact sat_bind (sat_modify fun s hs => inv_tail hs) fun _ _ => sat_pure hr
      · intro e
        exact sat_bind (sat_modify fun s hs => inv_tail hs) fun _ _ => sat_throw e

theorem callFunc_succ {n : Nat} (ih : AllSat T cfg g L n) (f : Val) (args : List V) (ha : ∀ a ∈ args, VOK L a) :
    Sat L (VOK L) (callFunc T cfg g (n + 1) f args) := by
  rw [callFunc.eq_def]
  split
  · exact sat_xerr _ _
  fuel_eq
  split
  · split
    · refine sat_bind (sat_getFrame _) fun fr _ => ?_
      refine sat_bind (sat_modifyFrame _ fun f hf => frameOK_depth hf _) fun _ _ => ?_
      split
      · exact sat_bind (sat_modifyFrame _ fun f hf => frameOK_depth hf _) fun _ _ => sat_xerr _ _
      · refine sat_tryCatch ?_ ?_
        · refine sat_bind (ih.callMacro _ _ _ ha) fun r hr => ?_
          exact sat_bind (sat_modifyFrame _ fun f hf => frameOK_depth hf _) fun _ _ => sat_pure hr
        · intro e
          exact sat_bind (sat_modifyFrame _ fun f hf => frameOK_depth hf _) fun _ _ => sat_throw e
    · exact ih.callMacro _ _ _ ha
  all_goals exact sat_xerr _ _

theorem envOK_macroEnv {base : Env} {defaults : List (Bytes × Val)} {args : List V} (params : List Bytes)
    (hb : EnvOK L base) (hd : ∀ kv ∈ defaults, ValOK L kv.2) (ha : ∀ a ∈ args, VOK L a) :
    EnvOK L (macroEnv base defaults params args) := by
  unfold macroEnv
  simp only []
  have h1 := envOK_foldl_set hd hb
  generalize (List.foldl (fun (e : Env) kv => e.set kv.1 kv.2) base defaults) = e1 at h1
  have : ∀ (l : List (Bytes × V)) (e : Env), (∀ pa ∈ l, VOK L pa.2) → EnvOK L e →
      EnvOK L (l.foldl (fun (e : Env) pa => e.set pa.1 pa.2.v) e) := by
    intro l
    induction l with
    | nil => intro e _ he; exact he
    | cons hd tl ih =>
      intro e hl he
      simp only [List.foldl_cons]
      exact ih _ (fun pa h => hl pa (List.mem_cons_of_mem _ h)) (envOK_set he _ (hl hd List.mem_cons_self).1)
  exact this _ _ (fun pa hpa => ha _ (List.of_mem_zip hpa).2) h1

theorem frameOK_child {f : Frame} (h : FrameOK L f) : FrameOK L (childOf f) := h

theorem vok_rendered {out : Bytes} (h : Clean L out) : VOK L ⟨.str out, true⟩ :=
  ⟨ValOK.str _, fun _ => Or.inl ⟨_, rfl, h⟩⟩

theorem callMacro_succ {n : Nat} (ih : AllSat T cfg g L n) (fid idx : Nat) (args : List V) (ha : ∀ a ∈ args, VOK L a) :
    Sat L (VOK L) (callMacro T cfg g (n + 1) fid idx args) := by
  rw [callMacro]
  refine sat_bind sat_get fun st hst => ?_
  have hmd := hst.hworld.2 idx
  refine sat_bind (sat_getFrame _) fun defFrame hdf => ?_
  refine sat_bind (sat_withFrameView n fid (ih.evalDefaults _ hmd.2)) fun defaults hdefs => ?_
  split
  · exact sat_xerr _ _
  · refine sat_bind (sat_withFrame (fr := _) ?_ (sat_buffered (ih.execNodes _ hmd.1))) fun out hout => ?_
    · have hc := frameOK_child hdf
      exact ⟨envOK_macroEnv _ hc.1 hdefs ha, hc.2.1, hc.2.2⟩
    · exact sat_pure (vok_rendered hout)

theorem nodesOK_blockWrappers {cs : CState} (hw : WorldOK L cs) (chain : List Nat) (name : Bytes) :
    ∀ b ∈ blockWrappers cs.tpls chain name, NodesOK L b := by
  intro b hb
  unfold blockWrappers at hb
  simp only [List.mem_filterMap] at hb
  obtain ⟨i, _, hi⟩ := hb
  exact (hw.1 i).2 _ (lookup_mem _ _ _ hi)

theorem nodesOK_getD {ws : List (List Node)} (h : ∀ b ∈ ws, NodesOK L b) (j : Nat) : NodesOK L (ws.getD j []) := by
  rw [List.getD_eq_getElem?_getD]
  cases hj : ws[j]? with
  | none => intro x hx; cases hx
  | some b => exact h b (List.mem_of_getElem? hj)

theorem callSuper_succ {n : Nat} (ih : AllSat T cfg g L n) (fid : Nat) (name : Bytes) (lvl : Nat) :
    Sat L (VOK L) (callSuper T cfg g (n + 1) fid name lvl) := by
  rw [callSuper]
  split
  · exact sat_pure (vok_rendered (Clean.nil L))
  · refine sat_bind (sat_getFrame _) fun fr hfr => ?_
    refine sat_bind sat_get fun st hst => ?_
    have hbody := nodesOK_getD (nodesOK_blockWrappers hst.hworld fr.chain name) (lvl - 1)
    refine sat_bind (sat_withFrame (fr := _) ?_ (sat_buffered (ih.execNodes _ hbody))) fun out hout => ?_
    · have hc := frameOK_child hfr
      exact ⟨envOK_set hc.1 _ (ValOK.blockinfo _ _ _), hc.2.1, hc.2.2⟩
    · exact sat_pure (vok_rendered hout)

theorem valOK_loopRecord (a b c d : Int64) (f l : Bool) {parent : Val} (hp : ValOK L parent) :
    ValOK L (loopRecord a b c d f l parent) := by
  unfold loopRecord
  refine ValOK.ptr _ (ValOK.struct _ _ _ ?_)
  intro fld hf
  simp only [List.mem_cons, List.not_mem_nil, or_false] at hf
  rcases hf with rfl | rfl | rfl | rfl | rfl | rfl | rfl <;>
    first | exact ValOK.int _ | exact ValOK.bool _ | exact hp

theorem valOK_boxed_unsafe {v : Val} (h : ValOK L v) : ValOK L (.boxed v false) :=
  ValOK.boxed _ _ h (by intro h; cases h)

theorem forLoop_succ {n : Nat} (ih : AllSat T cfg g L n) (key value : Bytes) (body : List Node) (parent : Val)
    (items : List (Val × Option Val)) (idx count : Nat) (f l : Bool) (hb : NodesOK L body) (hp : ValOK L parent)
    (hi : ∀ it ∈ items, ValOK L it.1 ∧ ∀ vv, it.2 = some vv → ValOK L vv) :
    Sat L (fun _ => True) (forLoop T cfg g (n + 1) key value body parent items idx count f l) := by
  rw [forLoop.eq_def]
  split
  · exact sat_xerr _ _
  · exact sat_pure trivial
  · fuel_eq
    rename_i k v rest _ _ _ _
    have hkv := hi _ List.mem_cons_self
    refine sat_bind (sat_modifyCur ?_) fun _ _ => ?_
    · intro fr hfr
      refine ⟨envOK_set ?_ _ (valOK_loopRecord _ _ _ _ _ _ hp), hfr.2.1, hfr.2.2⟩
      have hb : ∀ kk : Val, ValOK L kk → ValOK L (bindItem kk) := by
        intro kk hk
        unfold bindItem
        split
        · exact hk
        · exact valOK_boxed_unsafe hk
      split
      · split
        · exact envOK_set hfr.1 _ (hb _ hkv.1)
        · exact envOK_set (envOK_set hfr.1 _ (hb _ hkv.1)) _ (valOK_boxed_unsafe (hkv.2 _ rfl))
      · exact envOK_set hfr.1 _ (hb _ hkv.1)
    · refine sat_bind (ih.execNodes _ hb) fun _ _ => ?_
      exact ih.forLoop _ _ _ _ _ _ _ _ _ hb hp (fun it h => hi it (List.mem_cons_of_mem _ h))

theorem valOK_metaCtx : ValOK L metaCtx := by
  unfold metaCtx
  refine ValOK.smap _ _ ?_
  intro kv hkv
  simp only [List.mem_cons, List.not_mem_nil, or_false] at hkv
  subst hkv
  exact ValOK.str _

theorem executeTplUnbuffered_succ {n : Nat} (hae : cfg.autoescape = true) (hg : EnvOK L g) (ih : AllSat T cfg g L n) (ti : Nat) (ctx : Env) (hc : EnvOK L ctx) :
    Sat L (fun _ => True) (executeTplUnbuffered T cfg g (n + 1) ti ctx) := by
  rw [executeTplUnbuffered]
  refine sat_bind sat_get fun st hst => ?_
  simp only []
  split
  · exact sat_xerr _ _
  · split
    · exact sat_xerr _ _
    · refine sat_bind sat_get fun saved hsaved => ?_
      refine sat_bind (sat_modify fun s hs => ⟨hs.hout, hs.hframes, hs.hworld, by intro e he; cases he⟩) fun _ _ => ?_
      have hrestore : Sat L (fun _ => True) (modify fun s => { s with cycle := saved.cycle, changedV := saved.changedV, changedC := saved.changedC } : XM Unit) :=
        sat_modify fun s hs => ⟨hs.hout, hs.hframes, hs.hworld, hsaved.hchanged⟩
      refine sat_tryCatch ?_ ?_
      · refine sat_bind (sat_withFrame (fr := _) ?_ (ih.execNodes _ (hst.hworld.1 _).1)) fun _ _ => hrestore
        refine ⟨?_, envOK_update hg hc, hae⟩
        intro kv hkv
        simp only [List.mem_cons, List.not_mem_nil, or_false] at hkv
        subst hkv
        exact valOK_metaCtx
      · intro e
        exact sat_bind hrestore fun _ _ => sat_throw e

/-! ### iteration -/

theorem mem_insertSorted {less : Val → Val → Bool} {x y : Val} {l : List Val} (h : y ∈ insertSorted less x l) : y = x ∨ y ∈ l := by
  induction l with
  | nil => simp only [insertSorted, List.mem_singleton] at h; exact Or.inl h
  | cons a t ih =>
    simp only [insertSorted] at h
    split at h
    · simp only [List.mem_cons] at h ⊢
      rcases h with h | h | h
      · exact Or.inl h
      · exact Or.inr (Or.inl h)
      · exact Or.inr (Or.inr h)
    · simp only [List.mem_cons] at h ⊢
      rcases h with h | h
      · exact Or.inr (Or.inl h)
      · rcases ih h with h | h
        · exact Or.inl h
        · exact Or.inr (Or.inr h)

theorem mem_sortVals {less : Val → Val → Bool} {y : Val} {l : List Val} (h : y ∈ sortVals less l) : y ∈ l := by
  induction l with
  | nil => simp [sortVals] at h
  | cons a t ih =>
    simp only [sortVals, List.foldr_cons] at h
    rcases mem_insertSorted h with h | h
    · exact h ▸ List.mem_cons_self
    · exact List.mem_cons_of_mem _ (ih h)

/-- whatever order is chosen, the items visited are items of the container -/
theorem mem_ordered {less1 less2 : Val → Val → Bool} {reversed sorted : Bool} {xs : List Val} {y : Val}
    (h : y ∈ (if sorted then (if reversed then sortVals less1 xs else sortVals less2 xs)
              else if reversed then xs.reverse else xs)) : y ∈ xs := by
  split at h
  · split at h <;> exact mem_sortVals h
  · split at h
    · exact List.mem_reverse.mp h
    · exact h

theorem mem_sortedKeys {less1 less2 : Val → Val → Bool} {reversed sorted : Bool} {xs : List Val} {y : Val}
    (h : y ∈ (if sorted then (if reversed then sortVals less1 xs else sortVals less2 xs) else xs)) : y ∈ xs := by
  split at h
  · split at h <;> exact mem_sortVals h
  · exact h

def ItemOK (L : Bytes → Prop) (it : Val × Option Val) : Prop := ValOK L it.1 ∧ ∀ vv, it.2 = some vv → ValOK L vv

theorem iterItems_ok {v : Val} (hv : ValOK L v) (reversed sorted : Bool) : ∀ it ∈ iterItems v reversed sorted, ItemOK L it := by
  have hr := valOK_reflected hv
  intro it hit
  unfold iterItems at hit
  split at hit
  · rename_i ty kvs heq
    rw [heq] at hr
    cases hr with | smap _ _ hf =>
    simp only [List.mem_map] at hit
    obtain ⟨k, hk, rfl⟩ := hit
    have hk' := mem_sortedKeys hk
    simp only [List.mem_map] at hk'
    obtain ⟨kv, _, rfl⟩ := hk'
    refine ⟨ValOK.str _, ?_⟩
    intro vv hvv
    simp only [Option.some.injEq] at hvv
    subst hvv
    exact valOK_lookup_getD hf _
  · rename_i ty kvs heq
    rw [heq] at hr
    cases hr with | imap _ _ hf =>
    simp only [List.mem_map] at hit
    obtain ⟨k, hk, rfl⟩ := hit
    have hk' := mem_sortedKeys hk
    simp only [List.mem_map] at hk'
    obtain ⟨kv, _, rfl⟩ := hk'
    refine ⟨ValOK.int _, ?_⟩
    intro vv hvv
    simp only [Option.some.injEq] at hvv
    subst hvv
    cases h : List.lookup kv.1 kvs with
    | none => exact ValOK.nil
    | some x => exact valOK_lookup hf h
  · rename_i ty xs heq
    rw [heq] at hr
    cases hr with | list _ _ hx =>
    simp only [List.mem_map] at hit
    obtain ⟨x, hxm, rfl⟩ := hit
    exact ⟨hx _ (mem_ordered hxm), by intro vv h; cases h⟩
  · rename_i ty xs heq
    rw [heq] at hr
    cases hr with | arr _ _ hx =>
    simp only [List.mem_map] at hit
    obtain ⟨x, hxm, rfl⟩ := hit
    exact ⟨hx _ (mem_ordered hxm), by intro vv h; cases h⟩
  · simp only [List.mem_map] at hit
    obtain ⟨r, _, rfl⟩ := hit
    exact ⟨ValOK.str _, by intro vv h; cases h⟩
  · cases hit

/-! ### the nodes -/

theorem toS_int (i : Int64) : (Val.int i).toS = fmtInt i := by
  simp [Val.toS, Val.toStr, Val.isNil, Val.rkind, Val.kind, Val.resolved]

theorem envOK_binds (binds : List (Bytes × Nat)) (fid : Nat) : ∀ {e : Env}, EnvOK L e →
    EnvOK L (binds.foldl (fun e (x : Bytes × Nat) => e.set x.1 (.closure fid x.2 true)) e) := by
  induction binds with
  | nil => intro e he; exact he
  | cons hd tl ih => intro e he; exact ih (envOK_set he _ (ValOK.closure _ _ _))

theorem exprOK_default : ExprOK (default : Expr) := ExprAll.bool _ _

theorem exprOK_getD {args : List Expr} (h : ∀ a ∈ args, ExprOK a) (j : Nat) : ExprOK (args.getD j default) := by
  rw [List.getD_eq_getElem?_getD]
  cases hj : args[j]? with
  | none => exact exprOK_default
  | some a => exact h a (List.mem_of_getElem? hj)

theorem execNode_succ (hS : SetupOK T cfg L) {n : Nat} (ih : AllSat T cfg g L n) (nd : Node) (hn : NodeOK L nd) :
    Sat L (fun _ => True) (execNode T cfg g (n + 1) nd) := by
  cases hn with
  | html val tl tr a b o h =>
    rw [execNode]
    refine sat_bind sat_cur fun fr _ => ?_
    refine sat_bind sat_get fun st _ => ?_
    exact sat_write (Clean.of_chunk L (Chunk.lit _ (h _ _)))
  | var e p he =>
    rw [execNode]
    refine sat_bind (ih.eval _ he) fun v hv => ?_
    refine sat_bind sat_cur fun fr hfr => ?_
    rw [filterApplied_safe_false _ he, hfr.2.2]
    exact sat_write (printed_clean hv)
  | tagAutoescape body hb =>
    rw [execNode]
    refine sat_bind sat_cur fun fr hfr => ?_
    refine sat_bind (sat_modifyCur fun f hf => ⟨hf.1, hf.2.1, rfl⟩) fun _ _ => ?_
    refine sat_bind (ih.execNodes _ hb) fun _ _ => ?_
    exact sat_modifyCur fun f hf => ⟨hf.1, hf.2.1, hfr.2.2⟩
  | tagBlock name =>
    rw [execNode]
    refine sat_bind sat_cur fun fr hfr => ?_
    refine sat_bind sat_get fun st hst => ?_
    simp only []
    split
    · exact sat_xerr _ _
    · refine sat_bind (sat_modifyCur fun f hf => ⟨envOK_set hf.1 _ (ValOK.blockinfo _ _ _), hf.2.1, hf.2.2⟩) fun _ _ => ?_
      have hrestore : Sat L (fun _ => True) (modifyCur fun f =>
          { f with priv := match fr.priv.lookup b!"block" with
              | some o => f.priv.set b!"block" o
              | none => f.priv.filter (·.1 != b!"block") }) := by
        refine sat_modifyCur fun f hf => ⟨?_, hf.2.1, hf.2.2⟩
        split
        · rename_i o heq
          exact envOK_set hf.1 _ (envOK_lookup hfr.1 heq)
        · exact envOK_filter hf.1 _
      refine sat_tryCatch ?_ ?_
      · refine sat_bind (ih.execNodes _ (nodesOK_getD (nodesOK_blockWrappers hst.hworld _ _) _)) fun _ _ => hrestore
      · intro e
        exact sat_bind hrestore fun _ _ => sat_throw e
  | tagComment => rw [execNode]; exact sat_pure trivial
  | tagCycle id args asName silent ha =>
    rw [execNode]
    split
    · exact sat_xerr _ _
    · refine sat_bind sat_get fun st _ => ?_
      refine sat_bind (sat_modify fun s hs => ⟨hs.hout, hs.hframes, hs.hworld, hs.hchanged⟩) fun _ _ => ?_
      refine sat_bind (ih.eval _ (exprOK_getD ha _)) fun v hv => ?_
      split
      · exact sat_xerr _ _
      · have hjp : Sat L (fun _ => True) (if (!silent) = true then do
              let fr ← cur
              write (printed (filterApplied b!"safe" (args.getD ((List.lookup id st.cycle).getD 0 % args.length) default)) fr.autoescape v)
            else pure ()) := by
          split
          · refine sat_bind sat_cur fun fr hfr => ?_
            rw [filterApplied_safe_false _ (exprOK_getD ha _), hfr.2.2]
            exact sat_write (printed_clean hv)
          · exact sat_pure trivial
        simp only []
        split
        · exact sat_bind (sat_modifyCur fun f hf => ⟨envOK_set hf.1 _ (ValOK.cycleval _ _ _), hf.2.1, hf.2.2⟩) fun _ _ => hjp
        · exact hjp
  | tagExtends => rw [execNode]; exact sat_pure trivial
  | tagFirstof args ha => rw [execNode]; exact ih.firstof _ ha
  | tagFor key value obj r s body empty ho hb he =>
    rw [execNode.eq_def]
    simp only []
    refine sat_bind sat_cur fun fr hfr => ?_
    have hparent : ValOK L (if isLoopRecord ((fr.priv.lookup b!"forloop").getD .nil) then (fr.priv.lookup b!"forloop").getD .nil else .nilptr) := by
      split
      · exact valOK_lookup_getD hfr.1 _
      · exact ValOK.nilptr
    refine sat_withFrame (frameOK_child hfr) ?_
    refine sat_bind (ih.eval _ ho) fun o hov => ?_
    split
    · split
      · rename_i eb
        exact ih.execNodes _ (he _ rfl)
      · exact sat_pure trivial
    · exact ih.forLoop _ _ _ _ _ _ _ _ _ hb hparent (iterItems_ok hov.1 _ _)
  | tagIf conds bodies hc hb => rw [execNode]; exact ih.ifChain _ _ _ hc hb
  | tagIfchanged id watch t e hw ht he =>
    rw [execNode.eq_def]
    simp only []
    split
    · refine sat_bind (sat_buffered (ih.execNodes _ ht)) fun out hout => ?_
      refine sat_bind sat_get fun st _ => ?_
      split
      · refine sat_bind (sat_write hout) fun _ _ => ?_
        refine sat_modify fun s hs => ⟨hs.hout, hs.hframes, hs.hworld, ?_⟩
        intro x hx
        simp only [List.mem_append, List.mem_singleton] at hx
        rcases hx with hx | rfl
        · exact hs.hchanged x (List.mem_filter.mp hx).1
        · exact hout
      · split
        · split
          · exact ih.execNodes _ (he _ rfl)
          · exact sat_pure trivial
        · exact sat_pure trivial
    · refine sat_bind (ih.evalList _ hw) fun now _ => ?_
      refine sat_bind sat_get fun st _ => ?_
      refine sat_bind (sat_modify fun s hs => ⟨hs.hout, hs.hframes, hs.hworld, hs.hchanged⟩) fun _ _ => ?_
      split
      · exact ih.execNodes _ ht
      · split
        · exact ih.execNodes _ (he _ rfl)
        · exact sat_pure trivial
  | tagIfEqual a b t e ha hb ht he =>
    rw [execNode.eq_def]
    simp only []
    refine sat_bind (ih.eval _ ha) fun r1 _ => ?_
    refine sat_bind (ih.eval _ hb) fun r2 _ => ?_
    split
    · exact ih.execNodes _ ht
    · split
      · exact ih.execNodes _ (he _ rfl)
      · exact sat_pure trivial
  | tagIfNotEqual a b t e ha hb ht he =>
    rw [execNode.eq_def]
    simp only []
    refine sat_bind (ih.eval _ ha) fun r1 _ => ?_
    refine sat_bind (ih.eval _ hb) fun r2 _ => ?_
    split
    · exact ih.execNodes _ ht
    · split
      · exact ih.execNodes _ (he _ rfl)
      · exact sat_pure trivial
  | tagImport binds =>
    rw [execNode]
    refine sat_bind sat_cur fun fr _ => ?_
    exact sat_modifyCur fun f hf => ⟨envOK_binds binds fr.id hf.1, hf.2.1, hf.2.2⟩
  | tagIncludeStatic ti only pairs hp =>
    rw [execNode]
    case x_3 => intro h; cases h
    simp only []
    refine sat_bind sat_cur fun fr hfr => ?_
    refine sat_bind (ih.evalPairs _ hp) fun pvs hpvs => ?_
    refine ih.executeTpl _ _ (envOK_foldl_set hpvs ?_)
    split
    · exact envOK_nil
    · exact envOK_update hfr.2.1 hfr.1
  | tagIncludeLazy e ie ref only pairs he hp =>
    rw [execNode]
    case x_3 => intro h; cases h
    simp only []
    refine sat_bind sat_cur fun fr hfr => ?_
    refine sat_bind (ih.evalPairs _ hp) fun pvs hpvs => ?_
    have hictx : EnvOK L (pvs.foldl (fun (e : Env) kv => e.set kv.1 kv.2) (if only then [] else (Env.update fr.pub fr.priv))) := by
      refine envOK_foldl_set hpvs ?_
      split
      · exact envOK_nil
      · exact envOK_update hfr.2.1 hfr.1
    refine sat_bind (ih.eval _ he) fun fname _ => ?_
    split
    · exact sat_xerr _ _
    · refine sat_bind sat_get fun st hst => ?_
      split
      · rename_i ti cs hff
        -- the template is compiled now, from what the loaders hold: it is opt-out-free like the rest
        have hw := (allDoc hS n).fromFile st.cs _ hst.hworld _ hff
        refine sat_bind (sat_modify fun s hs => ⟨hs.hout, hs.hframes, hw, hs.hchanged⟩) fun _ _ => ?_
        exact ih.executeTpl _ _ hictx
      · split
        · refine sat_bind (sat_modify fun s hs => ⟨hs.hout, hs.hframes, ⟨hs.hworld.1, hs.hworld.2⟩, hs.hchanged⟩) fun _ _ => ?_
          split
          · exact sat_pure trivial
          · exact sat_xerr _ _
        · repeat (first | exact sat_xerr _ _ | split)
  | tagIncludeEmpty only pairs => rw [execNode]; exact sat_pure trivial
  | tagLorem c m r p => rw [execNode]; exact sat_xerr _ _
  | tagMacro idx =>
    rw [execNode]
    refine sat_bind sat_cur fun fr _ => ?_
    refine sat_bind sat_get fun st _ => ?_
    exact sat_modifyCur fun f hf => ⟨envOK_set hf.1 _ (ValOK.closure _ _ _), hf.2.1, hf.2.2⟩
  | tagNow f k => rw [execNode]; exact sat_xerr _ _
  | tagSet name e he =>
    rw [execNode]
    refine sat_bind (ih.eval _ he) fun v hv => ?_
    exact sat_modifyCur fun f hf => ⟨envOK_set hf.1 _ (ValOK.boxed _ _ hv.1 hv.2), hf.2.1, hf.2.2⟩
  | tagSpaceless body hb =>
    rw [execNode]
    refine sat_bind (sat_buffered (ih.execNodes _ hb)) fun out hout => ?_
    exact sat_write (hout.thin L _ (spaceless_thins out).1 (spaceless_thins out).2)
  | tagSsi content ti hc =>
    rw [execNode.eq_def]
    simp only []
    split
    · refine sat_bind sat_cur fun fr hfr => ?_
      exact ih.executeTplUnbuffered _ _ (envOK_update hfr.2.1 hfr.1)
    · refine sat_write ?_
      cases content with
      | none => exact Clean.nil L
      | some c => exact Clean.of_chunk L (Chunk.lit _ (hc c rfl))
  | tagTemplatetag content hc =>
    rw [execNode]
    exact sat_write (Clean.of_chunk L (Chunk.lit _ hc))
  | tagWidthratio c m w asName hc hm hw =>
    rw [execNode]
    refine sat_bind (ih.eval _ hc) fun cv _ => ?_
    refine sat_bind (ih.eval _ hm) fun mv _ => ?_
    refine sat_bind (ih.eval _ hw) fun wv _ => ?_
    simp only []
    split
    · refine sat_write ?_
      rw [← toS_int]
      exact Clean.of_chunk L (Chunk.engine _ rfl rfl)
    · exact sat_modifyCur fun f hf => ⟨envOK_set hf.1 _ (ValOK.int _), hf.2.1, hf.2.2⟩
  | tagWith pairs body hp hb =>
    rw [execNode]
    refine sat_bind sat_cur fun fr hfr => ?_
    refine sat_bind (ih.evalPairs _ hp) fun pvs hpvs => ?_
    refine sat_withFrame ?_ (ih.execNodes _ hb)
    have hc := frameOK_child hfr
    exact ⟨envOK_foldl_set hpvs hc.1, hc.2.1, hc.2.2⟩

theorem allSat_succ (hS : SetupOK T cfg L) (hg : EnvOK L g) (n : Nat) (ih : AllSat T cfg g L n) : AllSat T cfg g L (n + 1) where
  eval := eval_succ ih
  evalArrayItems := evalArrayItems_succ ih
  evalList := evalList_succ ih
  applyChain := applyChain_succ ih
  resolve := resolve_succ ih
  afterPart := afterPart_succ ih
  resolveRest := resolveRest_succ ih
  callFunc := callFunc_succ ih
  callMacro := callMacro_succ ih
  evalDefaults := evalDefaults_succ ih
  callSuper := callSuper_succ ih
  evalPairs := evalPairs_succ ih
  firstof := firstof_succ ih
  executeTpl := executeTpl_succ ih
  executeTplUnbuffered := executeTplUnbuffered_succ hS.autoescape hg ih
  execNodes := execNodes_succ ih
  execNode := execNode_succ hS ih
  ifChain := ifChain_succ ih
  forLoop := forLoop_succ ih

/-- **The autoescape invariant holds for every fuel, node, expression and state.** -/
theorem allSat (hS : SetupOK T cfg L) (hg : EnvOK L g) (fuel : Nat) : AllSat T cfg g L fuel := by
  induction fuel with
  | zero => exact allSat_zero T cfg g
  | succ n ih => exact allSat_succ hS hg n ih

end

end Pongo

/-
  Output discipline of the interpreter: `Grows m` — whatever `m` does, and whether or not it
  fails, the output written before is still there afterwards: the output only ever grows.
  `Quiet m`: the output is exactly what it was (expressions; everything that is buffered).
-/
import Pongo.Model.Exec

namespace Pongo

/-- the state after running, whatever the outcome -/
def endState {α} : EStateM.Result XErr ES α → ES
  | .ok _ s => s
  | .error _ s => s

/-- `σ'` has everything `σ` had written, possibly more -/
def OutGrows (σ σ' : ES) : Prop := ∃ suf, σ'.out = σ.out ++ suf

theorem OutGrows.refl (σ : ES) : OutGrows σ σ := ⟨[], by simp⟩
theorem OutGrows.trans {a b c : ES} (h1 : OutGrows a b) (h2 : OutGrows b c) : OutGrows a c := by
  obtain ⟨s1, e1⟩ := h1
  obtain ⟨s2, e2⟩ := h2
  exact ⟨s1 ++ s2, by rw [e2, e1, List.append_assoc]⟩
theorem OutGrows.of_eq {a b : ES} (h : b.out = a.out) : OutGrows a b := ⟨[], by simp [h]⟩

def Grows {α} (m : XM α) : Prop := ∀ σ : ES, OutGrows σ (endState (m.run σ))

/-- the output is untouched -/
def Quiet {α} (m : XM α) : Prop := ∀ σ : ES, (endState (m.run σ)).out = σ.out

theorem Quiet.toGrows {α} {m : XM α} (h : Quiet m) : Grows m := fun σ => OutGrows.of_eq (h σ)

/-! ### `Quiet` -/

theorem quiet_pure {α} (a : α) : Quiet (pure a : XM α) := by
  intro σ; simp [EStateM.run, pure, EStateM.pure, endState]

theorem quiet_bind {α β} {m : XM α} {f : α → XM β} (hm : Quiet m) (hf : ∀ a, Quiet (f a)) : Quiet (m >>= f) := by
  intro σ
  have h := hm σ
  simp only [EStateM.run, bind, EStateM.bind] at h ⊢
  cases hr : m σ with
  | ok a σ' =>
    rw [hr] at h
    simp only [endState] at h
    have h2 := hf a σ'
    simp only [EStateM.run] at h2
    rw [h2, h]
  | error e σ' =>
    rw [hr] at h
    exact h

theorem quiet_throw {α} (e : XErr) : Quiet (throw e : XM α) := by
  intro σ; simp [EStateM.run, throw, throwThe, MonadExceptOf.throw, EStateM.throw, endState]

theorem quiet_xerr {α} (msg : String) (k : XKind) : Quiet (xerr msg k : XM α) := quiet_throw _

theorem quiet_get : Quiet (get : XM ES) := by
  intro σ; simp [EStateM.run, get, getThe, MonadStateOf.get, EStateM.get, endState]

theorem quiet_modify (f : ES → ES) (hf : ∀ s, (f s).out = s.out) : Quiet (modify f : XM Unit) := by
  intro σ; simp [EStateM.run, modify, modifyGet, MonadStateOf.modifyGet, EStateM.modifyGet, endState, hf]

theorem quiet_tryCatch {α} {m : XM α} {h : XErr → XM α} (hm : Quiet m) (hh : ∀ e, Quiet (h e)) : Quiet (tryCatch m h) := by
  intro σ
  have h1 := hm σ
  simp only [EStateM.run, tryCatch, tryCatchThe, MonadExceptOf.tryCatch, EStateM.tryCatch, EStateM.Backtrackable.save,
    EStateM.Backtrackable.restore, EStateM.dummySave, EStateM.dummyRestore] at h1 ⊢
  cases hr : m σ with
  | ok a σ' =>
    rw [hr] at h1
    exact h1
  | error e σ' =>
    rw [hr] at h1
    simp only [endState] at h1
    have h2 := hh e σ'
    simp only [EStateM.run] at h2
    rw [h2, h1]

theorem quiet_cur : Quiet cur := by
  intro σ
  unfold cur
  cases hf : σ.frames <;>
    simp [EStateM.run, bind, EStateM.bind, get, getThe, MonadStateOf.get, EStateM.get, hf, pure, EStateM.pure, xerr, throw,
      throwThe, MonadExceptOf.throw, EStateM.throw, endState]

theorem quiet_getFrame (id : Nat) : Quiet (getFrame id) := by
  intro σ
  unfold getFrame
  cases hf : σ.frames.find? (·.id == id) <;>
    simp [EStateM.run, bind, EStateM.bind, get, getThe, MonadStateOf.get, EStateM.get, hf, pure, EStateM.pure, xerr, throw,
      throwThe, MonadExceptOf.throw, EStateM.throw, endState]

theorem quiet_modifyCur (f : Frame → Frame) : Quiet (modifyCur f) := by
  unfold modifyCur
  apply quiet_modify
  intro s; cases h : s.frames <;> simp

theorem quiet_modifyFrame (id : Nat) (f : Frame → Frame) : Quiet (modifyFrame id f) := by
  unfold modifyFrame; exact quiet_modify _ (fun s => rfl)

theorem quiet_liftStep {α} (r : Except String α) : Quiet (liftStep r) := by
  unfold liftStep
  split
  · exact quiet_pure _
  · exact quiet_xerr _ _

/-! ### `Grows` -/

theorem grows_pure {α} (a : α) : Grows (pure a : XM α) := (quiet_pure a).toGrows
theorem grows_throw {α} (e : XErr) : Grows (throw e : XM α) := (quiet_throw e).toGrows
theorem grows_xerr {α} (msg : String) (k : XKind) : Grows (xerr msg k : XM α) := (quiet_xerr msg k).toGrows
theorem grows_get : Grows (get : XM ES) := quiet_get.toGrows

theorem grows_bind {α β} {m : XM α} {f : α → XM β} (hm : Grows m) (hf : ∀ a, Grows (f a)) : Grows (m >>= f) := by
  intro σ
  have h := hm σ
  simp only [EStateM.run, bind, EStateM.bind] at h ⊢
  cases hr : m σ with
  | ok a σ' =>
    rw [hr] at h
    simp only [endState] at h
    have h2 := hf a σ'
    simp only [EStateM.run] at h2
    exact h.trans h2
  | error e σ' =>
    rw [hr] at h
    exact h

theorem grows_tryCatch {α} {m : XM α} {h : XErr → XM α} (hm : Grows m) (hh : ∀ e, Grows (h e)) : Grows (tryCatch m h) := by
  intro σ
  have h1 := hm σ
  simp only [EStateM.run, tryCatch, tryCatchThe, MonadExceptOf.tryCatch, EStateM.tryCatch, EStateM.Backtrackable.save,
    EStateM.Backtrackable.restore, EStateM.dummySave, EStateM.dummyRestore] at h1 ⊢
  cases hr : m σ with
  | ok a σ' =>
    rw [hr] at h1
    exact h1
  | error e σ' =>
    rw [hr] at h1
    simp only [endState] at h1
    have h2 := hh e σ'
    simp only [EStateM.run] at h2
    exact h1.trans h2

theorem grows_write (b : Bytes) : Grows (write b) := by
  intro σ
  simp [write, EStateM.run, modify, modifyGet, MonadStateOf.modifyGet, EStateM.modifyGet, endState, OutGrows]

/-- a buffered body cannot disturb the real output at all: whatever it wrote went to a scratch
    buffer and the real output is put back, on success and on failure -/
theorem quiet_buffered (m : XM Unit) : Quiet (buffered m) := by
  intro σ
  unfold buffered
  simp only [EStateM.run, bind, EStateM.bind, get, getThe, MonadStateOf.get, EStateM.get, modify, modifyGet,
    MonadStateOf.modifyGet, EStateM.modifyGet, tryCatch, tryCatchThe, MonadExceptOf.tryCatch, EStateM.tryCatch,
    EStateM.Backtrackable.save, EStateM.Backtrackable.restore, EStateM.dummySave, EStateM.dummyRestore]
  cases hr : m { σ with out := [] } with
  | ok a σ' => simp [pure, EStateM.pure, endState]
  | error e σ' => simp [throw, throwThe, MonadExceptOf.throw, EStateM.throw, endState]

theorem quiet_withFrame {α} (fr : Frame) {m : XM α} (hm : Quiet m) : Quiet (withFrame fr m) := by
  unfold withFrame
  refine quiet_bind quiet_get fun st => ?_
  refine quiet_bind (quiet_modify _ (fun s => rfl)) fun _ => ?_
  refine quiet_tryCatch ?_ ?_
  · refine quiet_bind hm fun r => ?_
    exact quiet_bind (quiet_modify _ (fun s => rfl)) fun _ => quiet_pure _
  · intro e
    exact quiet_bind (quiet_modify _ (fun s => rfl)) fun _ => quiet_throw e

theorem grows_withFrame {α} (fr : Frame) {m : XM α} (hm : Grows m) : Grows (withFrame fr m) := by
  unfold withFrame
  refine grows_bind grows_get fun st => ?_
  refine grows_bind (quiet_modify _ (fun s => rfl)).toGrows fun _ => ?_
  refine grows_tryCatch ?_ ?_
  · refine grows_bind hm fun r => ?_
    exact grows_bind (quiet_modify _ (fun s => rfl)).toGrows fun _ => grows_pure _
  · intro e
    exact grows_bind (quiet_modify _ (fun s => rfl)).toGrows fun _ => grows_throw e

attribute [irreducible] Grows Quiet

end Pongo

/-
  More fuel never changes what the compiler answers: the expression parser and the document
  parser (with the templates they load and compile on the way) give, for fuel `n + 1`, exactly the
  answer they give for fuel `n` unless that answer was "out of fuel".  This is the premise
  `CompileMono` of the interpreter's fuel theorem (Lemmas/FuelAll.lean).
-/
import Pongo.Model.ParseDoc

namespace Pongo

/-- the answer is not the out-of-fuel error -/
def NotOof {α} : PM α → Prop
  | .ok _ => True
  | .error e => e.kind ≠ .outOfFuel

def LeP {α} (x y : PM α) : Prop := NotOof x → y = x

theorem leP_refl {α} (x : PM α) : LeP x x := fun _ => rfl

theorem leP_oof {α} (y : PM α) : LeP (.error { kind := .outOfFuel } : PM α) y := fun h => absurd rfl h

theorem leP_of_eq {α} {x x' y y' : PM α} (hx : x = x') (hy : y = y') (h : LeP x' y') : LeP x y := by
  subst hx; subst hy; exact h

theorem leP_bind {α β} {x y : PM α} {f g : α → PM β} (hx : LeP x y) (hf : ∀ a, LeP (f a) (g a)) :
    LeP (x >>= f) (y >>= g) := by
  intro hn
  cases hxs : x with
  | ok a =>
    rw [hxs] at hn
    rw [hx (by rw [hxs]; trivial), hxs]
    exact hf a hn
  | error e =>
    rw [hxs] at hn
    rw [hx (by rw [hxs]; exact hn), hxs]
    rfl

attribute [irreducible] LeP

syntax "leP_step" : tactic
macro_rules
  | `(tactic| leP_step) => `(tactic| first
      | with_reducible exact leP_refl _
      | with_reducible apply leP_bind
      | intro _
      | split)

/-! ### the expression parser -/

section expr
variable (cfg : SetCfg)

structure AllLeE (n : Nat) : Prop where
  parseExpression : ∀ x0, LeP (parseExpression cfg n x0) (parseExpression cfg (n + 1) x0)
  parseRelational : ∀ x0, LeP (parseRelational cfg n x0) (parseRelational cfg (n + 1) x0)
  parseSimple : ∀ x0, LeP (parseSimple cfg n x0) (parseSimple cfg (n + 1) x0)
  simpleLoop : ∀ x0 x1, LeP (simpleLoop cfg n x0 x1) (simpleLoop cfg (n + 1) x0 x1)
  parseTerm : ∀ x0, LeP (parseTerm cfg n x0) (parseTerm cfg (n + 1) x0)
  termLoop : ∀ x0 x1, LeP (termLoop cfg n x0 x1) (termLoop cfg (n + 1) x0 x1)
  parsePower : ∀ x0, LeP (parsePower cfg n x0) (parsePower cfg (n + 1) x0)
  parseFactor : ∀ x0, LeP (parseFactor cfg n x0) (parseFactor cfg (n + 1) x0)
  parseVarOrLitWithFilter : ∀ x0, LeP (parseVarOrLitWithFilter cfg n x0) (parseVarOrLitWithFilter cfg (n + 1) x0)
  filterLoop : ∀ x0 x1, LeP (filterLoop cfg n x0 x1) (filterLoop cfg (n + 1) x0 x1)
  parseFilter : ∀ x0, LeP (parseFilter cfg n x0) (parseFilter cfg (n + 1) x0)
  parseVarOrLit : ∀ x0, LeP (parseVarOrLit cfg n x0) (parseVarOrLit cfg (n + 1) x0)
  parseArray : ∀ x0 x1, LeP (parseArray cfg n x0 x1) (parseArray cfg (n + 1) x0 x1)
  arrayLoop : ∀ x0 x1 x2, LeP (arrayLoop cfg n x0 x1 x2) (arrayLoop cfg (n + 1) x0 x1 x2)
  variableLoop : ∀ x0 x1 x2, LeP (variableLoop cfg n x0 x1 x2) (variableLoop cfg (n + 1) x0 x1 x2)
  argumentLoop : ∀ x0 x1, LeP (argumentLoop cfg n x0 x1) (argumentLoop cfg (n + 1) x0 x1)

syntax "leE_ih" ident : tactic
macro_rules
  | `(tactic| leE_ih $ih) => `(tactic| first
      | exact AllLeE.parseExpression $ih _
      | exact AllLeE.parseRelational $ih _
      | exact AllLeE.parseSimple $ih _
      | exact AllLeE.simpleLoop $ih _ _
      | exact AllLeE.parseTerm $ih _
      | exact AllLeE.termLoop $ih _ _
      | exact AllLeE.parsePower $ih _
      | exact AllLeE.parseFactor $ih _
      | exact AllLeE.parseVarOrLitWithFilter $ih _
      | exact AllLeE.filterLoop $ih _ _
      | exact AllLeE.parseFilter $ih _
      | exact AllLeE.parseVarOrLit $ih _
      | exact AllLeE.parseArray $ih _ _
      | exact AllLeE.arrayLoop $ih _ _ _
      | exact AllLeE.variableLoop $ih _ _ _
      | exact AllLeE.argumentLoop $ih _ _)

theorem allLeE_zero : AllLeE cfg 0 := by
  constructor <;> intros <;>
    first
    | (rw [parseExpression]; exact leP_oof _)
    | (rw [parseRelational]; exact leP_oof _)
    | (rw [parseSimple]; exact leP_oof _)
    | (rw [simpleLoop]; exact leP_oof _)
    | (rw [parseTerm]; exact leP_oof _)
    | (rw [termLoop]; exact leP_oof _)
    | (rw [parsePower]; exact leP_oof _)
    | (rw [parseFactor]; exact leP_oof _)
    | (rw [parseVarOrLitWithFilter]; exact leP_oof _)
    | (rw [filterLoop]; exact leP_oof _)
    | (rw [parseFilter]; exact leP_oof _)
    | (rw [parseVarOrLit]; exact leP_oof _)
    | (rw [parseArray]; exact leP_oof _)
    | (rw [arrayLoop]; exact leP_oof _)
    | (rw [variableLoop]; exact leP_oof _)
    | (rw [argumentLoop]; exact leP_oof _)

theorem leE_parseExpression_succ (n : Nat) (ih : AllLeE cfg n) : ∀ x0, LeP (parseExpression cfg (n + 1) x0) (parseExpression cfg (n + 1 + 1) x0) := by
  intro x0
  refine leP_of_eq (parseExpression.eq_def cfg _ _) (parseExpression.eq_def cfg _ _) ?_
  (try simp only [])
  (repeat' leP_step) <;> (first | leE_ih ih | trace_state)

theorem leE_parseRelational_succ (n : Nat) (ih : AllLeE cfg n) : ∀ x0, LeP (parseRelational cfg (n + 1) x0) (parseRelational cfg (n + 1 + 1) x0) := by
  intro x0
  refine leP_of_eq (parseRelational.eq_def cfg _ _) (parseRelational.eq_def cfg _ _) ?_
  (try simp only [])
  (repeat' leP_step) <;> (first | leE_ih ih | trace_state)

theorem leE_parseSimple_succ (n : Nat) (ih : AllLeE cfg n) : ∀ x0, LeP (parseSimple cfg (n + 1) x0) (parseSimple cfg (n + 1 + 1) x0) := by
  intro x0
  refine leP_of_eq (parseSimple.eq_def cfg _ _) (parseSimple.eq_def cfg _ _) ?_
  (try simp only [])
  (repeat' leP_step) <;> (first | leE_ih ih | trace_state)

theorem leE_simpleLoop_succ (n : Nat) (ih : AllLeE cfg n) : ∀ x0 x1, LeP (simpleLoop cfg (n + 1) x0 x1) (simpleLoop cfg (n + 1 + 1) x0 x1) := by
  intro x0 x1
  refine leP_of_eq (simpleLoop.eq_def cfg _ _ _) (simpleLoop.eq_def cfg _ _ _) ?_
  (try simp only [])
  (repeat' leP_step) <;> (first | leE_ih ih | trace_state)

theorem leE_parseTerm_succ (n : Nat) (ih : AllLeE cfg n) : ∀ x0, LeP (parseTerm cfg (n + 1) x0) (parseTerm cfg (n + 1 + 1) x0) := by
  intro x0
  refine leP_of_eq (parseTerm.eq_def cfg _ _) (parseTerm.eq_def cfg _ _) ?_
  (try simp only [])
  (repeat' leP_step) <;> (first | leE_ih ih | trace_state)

theorem leE_termLoop_succ (n : Nat) (ih : AllLeE cfg n) : ∀ x0 x1, LeP (termLoop cfg (n + 1) x0 x1) (termLoop cfg (n + 1 + 1) x0 x1) := by
  intro x0 x1
  refine leP_of_eq (termLoop.eq_def cfg _ _ _) (termLoop.eq_def cfg _ _ _) ?_
  (try simp only [])
  (repeat' leP_step) <;> (first | leE_ih ih | trace_state)

theorem leE_parsePower_succ (n : Nat) (ih : AllLeE cfg n) : ∀ x0, LeP (parsePower cfg (n + 1) x0) (parsePower cfg (n + 1 + 1) x0) := by
  intro x0
  refine leP_of_eq (parsePower.eq_def cfg _ _) (parsePower.eq_def cfg _ _) ?_
  (try simp only [])
  (repeat' leP_step) <;> (first | leE_ih ih | trace_state)

theorem leE_parseFactor_succ (n : Nat) (ih : AllLeE cfg n) : ∀ x0, LeP (parseFactor cfg (n + 1) x0) (parseFactor cfg (n + 1 + 1) x0) := by
  intro x0
  refine leP_of_eq (parseFactor.eq_def cfg _ _) (parseFactor.eq_def cfg _ _) ?_
  (try simp only [])
  (repeat' leP_step) <;> (first | leE_ih ih | trace_state)

theorem leE_parseVarOrLitWithFilter_succ (n : Nat) (ih : AllLeE cfg n) : ∀ x0, LeP (parseVarOrLitWithFilter cfg (n + 1) x0) (parseVarOrLitWithFilter cfg (n + 1 + 1) x0) := by
  intro x0
  refine leP_of_eq (parseVarOrLitWithFilter.eq_def cfg _ _) (parseVarOrLitWithFilter.eq_def cfg _ _) ?_
  (try simp only [])
  (repeat' leP_step) <;> (first | leE_ih ih | trace_state)

theorem leE_filterLoop_succ (n : Nat) (ih : AllLeE cfg n) : ∀ x0 x1, LeP (filterLoop cfg (n + 1) x0 x1) (filterLoop cfg (n + 1 + 1) x0 x1) := by
  intro x0 x1
  refine leP_of_eq (filterLoop.eq_def cfg _ _ _) (filterLoop.eq_def cfg _ _ _) ?_
  (try simp only [])
  (repeat' leP_step) <;> (first | leE_ih ih | trace_state)

theorem leE_parseFilter_succ (n : Nat) (ih : AllLeE cfg n) : ∀ x0, LeP (parseFilter cfg (n + 1) x0) (parseFilter cfg (n + 1 + 1) x0) := by
  intro x0
  refine leP_of_eq (parseFilter.eq_def cfg _ _) (parseFilter.eq_def cfg _ _) ?_
  (try simp only [])
  (repeat' leP_step) <;> (first | leE_ih ih | trace_state)

theorem leE_parseVarOrLit_succ (n : Nat) (ih : AllLeE cfg n) : ∀ x0, LeP (parseVarOrLit cfg (n + 1) x0) (parseVarOrLit cfg (n + 1 + 1) x0) := by
  intro x0
  refine leP_of_eq (parseVarOrLit.eq_def cfg _ _) (parseVarOrLit.eq_def cfg _ _) ?_
  (try simp only [])
  (repeat' leP_step) <;> (first | leE_ih ih | trace_state)

theorem leE_parseArray_succ (n : Nat) (ih : AllLeE cfg n) : ∀ x0 x1, LeP (parseArray cfg (n + 1) x0 x1) (parseArray cfg (n + 1 + 1) x0 x1) := by
  intro x0 x1
  refine leP_of_eq (parseArray.eq_def cfg _ _ _) (parseArray.eq_def cfg _ _ _) ?_
  (try simp only [])
  (repeat' leP_step) <;> (first | leE_ih ih | trace_state)

theorem leE_arrayLoop_succ (n : Nat) (ih : AllLeE cfg n) : ∀ x0 x1 x2, LeP (arrayLoop cfg (n + 1) x0 x1 x2) (arrayLoop cfg (n + 1 + 1) x0 x1 x2) := by
  intro x0 x1 x2
  refine leP_of_eq (arrayLoop.eq_def cfg _ _ _ _) (arrayLoop.eq_def cfg _ _ _ _) ?_
  (try simp only [])
  (repeat' leP_step) <;> (first | leE_ih ih | trace_state)

theorem leE_variableLoop_succ (n : Nat) (ih : AllLeE cfg n) : ∀ x0 x1 x2, LeP (variableLoop cfg (n + 1) x0 x1 x2) (variableLoop cfg (n + 1 + 1) x0 x1 x2) := by
  intro x0 x1 x2
  refine leP_of_eq (variableLoop.eq_def cfg _ _ _ _) (variableLoop.eq_def cfg _ _ _ _) ?_
  (try simp only [])
  (repeat' leP_step) <;> (first | leE_ih ih | trace_state)

theorem leE_argumentLoop_succ (n : Nat) (ih : AllLeE cfg n) : ∀ x0 x1, LeP (argumentLoop cfg (n + 1) x0 x1) (argumentLoop cfg (n + 1 + 1) x0 x1) := by
  intro x0 x1
  refine leP_of_eq (argumentLoop.eq_def cfg _ _ _) (argumentLoop.eq_def cfg _ _ _) ?_
  (try simp only [])
  (repeat' leP_step) <;> (first | leE_ih ih | trace_state)

theorem allLeE_succ (n : Nat) (ih : AllLeE cfg n) : AllLeE cfg (n + 1) where
  parseExpression := leE_parseExpression_succ cfg n ih
  parseRelational := leE_parseRelational_succ cfg n ih
  parseSimple := leE_parseSimple_succ cfg n ih
  simpleLoop := leE_simpleLoop_succ cfg n ih
  parseTerm := leE_parseTerm_succ cfg n ih
  termLoop := leE_termLoop_succ cfg n ih
  parsePower := leE_parsePower_succ cfg n ih
  parseFactor := leE_parseFactor_succ cfg n ih
  parseVarOrLitWithFilter := leE_parseVarOrLitWithFilter_succ cfg n ih
  filterLoop := leE_filterLoop_succ cfg n ih
  parseFilter := leE_parseFilter_succ cfg n ih
  parseVarOrLit := leE_parseVarOrLit_succ cfg n ih
  parseArray := leE_parseArray_succ cfg n ih
  arrayLoop := leE_arrayLoop_succ cfg n ih
  variableLoop := leE_variableLoop_succ cfg n ih
  argumentLoop := leE_argumentLoop_succ cfg n ih

/-- **More fuel never changes what the expression parser answers.** -/
theorem allLeE (fuel : Nat) : AllLeE cfg fuel := by
  induction fuel with
  | zero => exact allLeE_zero cfg
  | succ n ih => exact allLeE_succ cfg n ih

end expr

/-! ### the document parser -/

section doc
variable (T : LexTables) (cfg : SetCfg)

structure AllLeD (n : Nat) : Prop where
  compileTpl : ∀ x0 x1 x2 x3, LeP (compileTpl T cfg n x0 x1 x2 x3) (compileTpl T cfg (n + 1) x0 x1 x2 x3)
  fromFile : ∀ x0 x1, LeP (fromFile T cfg n x0 x1) (fromFile T cfg (n + 1) x0 x1)
  parseDocument : ∀ x0 x1 x2, LeP (parseDocument T cfg n x0 x1 x2) (parseDocument T cfg (n + 1) x0 x1 x2)
  parseDocElement : ∀ x0 x1, LeP (parseDocElement T cfg n x0 x1) (parseDocElement T cfg (n + 1) x0 x1)
  parseTag : ∀ x0, LeP (parseTag T cfg n x0) (parseTag T cfg (n + 1) x0)
  wrapUntil : ∀ x0 x1 x2 x3, LeP (wrapUntil T cfg n x0 x1 x2 x3) (wrapUntil T cfg (n + 1) x0 x1 x2 x3)
  tagParser : ∀ x0 x1 x2 x3, LeP (tagParser T cfg n x0 x1 x2 x3) (tagParser T cfg (n + 1) x0 x1 x2 x3)
  ifBranches : ∀ x0 x1 x2 x3, LeP (ifBranches T cfg n x0 x1 x2 x3) (ifBranches T cfg (n + 1) x0 x1 x2 x3)
  exprList : ∀ x0 x1, LeP (exprList cfg n x0 x1) (exprList cfg (n + 1) x0 x1)
  cycleArgs : ∀ x0 x1, LeP (cycleArgs cfg n x0 x1) (cycleArgs cfg (n + 1) x0 x1)
  filterTagArgs : ∀ x0 x1, LeP (filterTagArgs cfg n x0 x1) (filterTagArgs cfg (n + 1) x0 x1)
  importArgs : ∀ x0 x1 x2, LeP (importArgs  n x0 x1 x2) (importArgs  (n + 1) x0 x1 x2)
  includePairs : ∀ x0 x1, LeP (includePairs cfg n x0 x1) (includePairs cfg (n + 1) x0 x1)
  macroParams : ∀ x0 x1, LeP (macroParams cfg n x0 x1) (macroParams cfg (n + 1) x0 x1)
  withPairs : ∀ x0 x1 x2, LeP (withPairs cfg n x0 x1 x2) (withPairs cfg (n + 1) x0 x1 x2)

syntax "leD_ih" ident : tactic
macro_rules
  | `(tactic| leD_ih $ih) => `(tactic| first
      | exact AllLeD.compileTpl $ih _ _ _ _
      | exact AllLeD.fromFile $ih _ _
      | exact AllLeD.parseDocument $ih _ _ _
      | exact AllLeD.parseDocElement $ih _ _
      | exact AllLeD.parseTag $ih _
      | exact AllLeD.wrapUntil $ih _ _ _ _
      | exact AllLeD.tagParser $ih _ _ _ _
      | exact AllLeD.ifBranches $ih _ _ _ _
      | exact AllLeD.exprList $ih _ _
      | exact AllLeD.cycleArgs $ih _ _
      | exact AllLeD.filterTagArgs $ih _ _
      | exact AllLeD.importArgs $ih _ _ _
      | exact AllLeD.includePairs $ih _ _
      | exact AllLeD.macroParams $ih _ _
      | exact AllLeD.withPairs $ih _ _ _
      | exact AllLeE.parseExpression (allLeE _ _) _
      | exact AllLeE.parseRelational (allLeE _ _) _
      | exact AllLeE.parseSimple (allLeE _ _) _
      | exact AllLeE.simpleLoop (allLeE _ _) _ _
      | exact AllLeE.parseTerm (allLeE _ _) _
      | exact AllLeE.termLoop (allLeE _ _) _ _
      | exact AllLeE.parsePower (allLeE _ _) _
      | exact AllLeE.parseFactor (allLeE _ _) _
      | exact AllLeE.parseVarOrLitWithFilter (allLeE _ _) _
      | exact AllLeE.filterLoop (allLeE _ _) _ _
      | exact AllLeE.parseFilter (allLeE _ _) _
      | exact AllLeE.parseVarOrLit (allLeE _ _) _
      | exact AllLeE.parseArray (allLeE _ _) _ _
      | exact AllLeE.arrayLoop (allLeE _ _) _ _ _
      | exact AllLeE.variableLoop (allLeE _ _) _ _ _
      | exact AllLeE.argumentLoop (allLeE _ _) _ _)

theorem allLeD_zero : AllLeD T cfg 0 := by
  constructor <;> intros <;>
    first
    | (rw [compileTpl]; exact leP_oof _)
    | (rw [fromFile]; exact leP_oof _)
    | (rw [parseDocument]; exact leP_oof _)
    | (rw [parseDocElement]; exact leP_oof _)
    | (rw [parseTag]; exact leP_oof _)
    | (rw [wrapUntil]; exact leP_oof _)
    | (rw [tagParser]; exact leP_oof _)
    | (rw [ifBranches]; exact leP_oof _)
    | (rw [exprList]; exact leP_oof _)
    | (rw [cycleArgs]; exact leP_oof _)
    | (rw [filterTagArgs]; exact leP_oof _)
    | (rw [importArgs]; exact leP_oof _)
    | (rw [includePairs]; exact leP_oof _)
    | (rw [macroParams]; exact leP_oof _)
    | (rw [withPairs]; exact leP_oof _)

theorem leD_compileTpl_succ (n : Nat) (ih : AllLeD T cfg n) : ∀ x0 x1 x2 x3, LeP (compileTpl T cfg (n + 1) x0 x1 x2 x3) (compileTpl T cfg (n + 1 + 1) x0 x1 x2 x3) := by
  intro x0 x1 x2 x3
  refine leP_of_eq (compileTpl.eq_def T cfg _ _ _ _ _) (compileTpl.eq_def T cfg _ _ _ _ _) ?_
  (try simp only [])
  (repeat' leP_step) <;> (first | leD_ih ih | trace_state)

theorem leD_fromFile_succ (n : Nat) (ih : AllLeD T cfg n) : ∀ x0 x1, LeP (fromFile T cfg (n + 1) x0 x1) (fromFile T cfg (n + 1 + 1) x0 x1) := by
  intro x0 x1
  refine leP_of_eq (fromFile.eq_def T cfg _ _ _) (fromFile.eq_def T cfg _ _ _) ?_
  (try simp only [])
  (repeat' leP_step) <;> (first | leD_ih ih | trace_state)

theorem leD_parseDocument_succ (n : Nat) (ih : AllLeD T cfg n) : ∀ x0 x1 x2, LeP (parseDocument T cfg (n + 1) x0 x1 x2) (parseDocument T cfg (n + 1 + 1) x0 x1 x2) := by
  intro x0 x1 x2
  refine leP_of_eq (parseDocument.eq_def T cfg _ _ _ _) (parseDocument.eq_def T cfg _ _ _ _) ?_
  (try simp only [])
  (repeat' leP_step) <;> (first | leD_ih ih | trace_state)

theorem leD_parseDocElement_succ (n : Nat) (ih : AllLeD T cfg n) : ∀ x0 x1, LeP (parseDocElement T cfg (n + 1) x0 x1) (parseDocElement T cfg (n + 1 + 1) x0 x1) := by
  intro x0 x1
  refine leP_of_eq (parseDocElement.eq_def T cfg _ _ _) (parseDocElement.eq_def T cfg _ _ _) ?_
  (try simp only [])
  (repeat' leP_step) <;> (first | leD_ih ih | trace_state)

theorem leD_parseTag_succ (n : Nat) (ih : AllLeD T cfg n) : ∀ x0, LeP (parseTag T cfg (n + 1) x0) (parseTag T cfg (n + 1 + 1) x0) := by
  intro x0
  refine leP_of_eq (parseTag.eq_def T cfg _ _) (parseTag.eq_def T cfg _ _) ?_
  (try simp only [])
  (repeat' leP_step) <;> (first | leD_ih ih | trace_state)

theorem leD_wrapUntil_succ (n : Nat) (ih : AllLeD T cfg n) : ∀ x0 x1 x2 x3, LeP (wrapUntil T cfg (n + 1) x0 x1 x2 x3) (wrapUntil T cfg (n + 1 + 1) x0 x1 x2 x3) := by
  intro x0 x1 x2 x3
  refine leP_of_eq (wrapUntil.eq_def T cfg _ _ _ _ _) (wrapUntil.eq_def T cfg _ _ _ _ _) ?_
  (try simp only [])
  (repeat' leP_step) <;> (first | leD_ih ih | trace_state)

set_option maxHeartbeats 4000000 in
theorem leD_tagParser_succ (n : Nat) (ih : AllLeD T cfg n) : ∀ x0 x1 x2 x3, LeP (tagParser T cfg (n + 1) x0 x1 x2 x3) (tagParser T cfg (n + 1 + 1) x0 x1 x2 x3) := by
  intro start close args ds
  unfold tagParser
  by_cases h : (start.val == b!"autoescape") = true
  · rw [if_pos h, if_pos h]
    (repeat' leP_step) <;> (first | leD_ih ih | trace_state)
  rw [if_neg h, if_neg h]; clear h
  by_cases h : (start.val == b!"block") = true
  · rw [if_pos h, if_pos h]
    (repeat' leP_step) <;> (first | leD_ih ih | trace_state)
  rw [if_neg h, if_neg h]; clear h
  by_cases h : (start.val == b!"comment") = true
  · rw [if_pos h, if_pos h]
    (repeat' leP_step) <;> (first | leD_ih ih | trace_state)
  rw [if_neg h, if_neg h]; clear h
  by_cases h : (start.val == b!"cycle") = true
  · rw [if_pos h, if_pos h]
    (repeat' leP_step) <;> (first | leD_ih ih | trace_state)
  rw [if_neg h, if_neg h]; clear h
  by_cases h : (start.val == b!"extends") = true
  · rw [if_pos h, if_pos h]
    (repeat' leP_step) <;> (first | leD_ih ih | trace_state)
  rw [if_neg h, if_neg h]; clear h
  by_cases h : (start.val == b!"filter") = true
  · rw [if_pos h, if_pos h]
    (repeat' leP_step) <;> (first | leD_ih ih | trace_state)
  rw [if_neg h, if_neg h]; clear h
  by_cases h : (start.val == b!"firstof") = true
  · rw [if_pos h, if_pos h]
    (repeat' leP_step) <;> (first | leD_ih ih | trace_state)
  rw [if_neg h, if_neg h]; clear h
  by_cases h : (start.val == b!"for") = true
  · rw [if_pos h, if_pos h]
    (repeat' leP_step) <;> (first | leD_ih ih | trace_state)
  rw [if_neg h, if_neg h]; clear h
  by_cases h : (start.val == b!"if") = true
  · rw [if_pos h, if_pos h]
    (repeat' leP_step) <;> (first | leD_ih ih | trace_state)
  rw [if_neg h, if_neg h]; clear h
  by_cases h : (start.val == b!"ifchanged") = true
  · rw [if_pos h, if_pos h]
    (repeat' leP_step) <;> (first | leD_ih ih | trace_state)
  rw [if_neg h, if_neg h]; clear h
  by_cases h : (start.val == b!"ifequal" || start.val == b!"ifnotequal") = true
  · rw [if_pos h, if_pos h]
    (repeat' leP_step) <;> (first | leD_ih ih | trace_state)
  rw [if_neg h, if_neg h]; clear h
  by_cases h : (start.val == b!"import") = true
  · rw [if_pos h, if_pos h]
    (repeat' leP_step) <;> (first | leD_ih ih | trace_state)
  rw [if_neg h, if_neg h]; clear h
  by_cases h : (start.val == b!"include") = true
  · rw [if_pos h, if_pos h]
    (repeat' leP_step) <;> (first | leD_ih ih | skip)
    -- what remains is the include of a literal name: the outcome of `fromFile` is inspected
    all_goals (
      simp only []
      generalize resolveFilename ds.ts.isString ds.ts.name _ = fname
      have key := AllLeD.fromFile ih ds.cs fname
      unfold LeP at key ⊢
      intro hn
      cases hA : fromFile T cfg n ds.cs fname with
      | ok r =>
        rw [hA] at key
        rw [key (by simp [NotOof])]
      | error e =>
        rw [hA] at key hn
        by_cases hk : e.kind = .outOfFuel
        · exfalso
          simp [hk, NotOof] at hn
        · rw [key hk])
  rw [if_neg h, if_neg h]; clear h
  by_cases h : (start.val == b!"lorem") = true
  · rw [if_pos h, if_pos h]
    (repeat' leP_step) <;> (first | leD_ih ih | trace_state)
  rw [if_neg h, if_neg h]; clear h
  by_cases h : (start.val == b!"macro") = true
  · rw [if_pos h, if_pos h]
    (repeat' leP_step) <;> (first | leD_ih ih | trace_state)
  rw [if_neg h, if_neg h]; clear h
  by_cases h : (start.val == b!"now") = true
  · rw [if_pos h, if_pos h]
    (repeat' leP_step) <;> (first | leD_ih ih | trace_state)
  rw [if_neg h, if_neg h]; clear h
  by_cases h : (start.val == b!"set") = true
  · rw [if_pos h, if_pos h]
    (repeat' leP_step) <;> (first | leD_ih ih | trace_state)
  rw [if_neg h, if_neg h]; clear h
  by_cases h : (start.val == b!"spaceless") = true
  · rw [if_pos h, if_pos h]
    (repeat' leP_step) <;> (first | leD_ih ih | trace_state)
  rw [if_neg h, if_neg h]; clear h
  by_cases h : (start.val == b!"ssi") = true
  · rw [if_pos h, if_pos h]
    (repeat' leP_step) <;> (first | leD_ih ih | trace_state)
  rw [if_neg h, if_neg h]; clear h
  by_cases h : (start.val == b!"templatetag") = true
  · rw [if_pos h, if_pos h]
    (repeat' leP_step) <;> (first | leD_ih ih | trace_state)
  rw [if_neg h, if_neg h]; clear h
  by_cases h : (start.val == b!"widthratio") = true
  · rw [if_pos h, if_pos h]
    (repeat' leP_step) <;> (first | leD_ih ih | trace_state)
  rw [if_neg h, if_neg h]; clear h
  by_cases h : (start.val == b!"with") = true
  · rw [if_pos h, if_pos h]
    (repeat' leP_step) <;> (first | leD_ih ih | trace_state)
  rw [if_neg h, if_neg h]; clear h
  exact leP_refl _

theorem leD_ifBranches_succ (n : Nat) (ih : AllLeD T cfg n) : ∀ x0 x1 x2 x3, LeP (ifBranches T cfg (n + 1) x0 x1 x2 x3) (ifBranches T cfg (n + 1 + 1) x0 x1 x2 x3) := by
  intro x0 x1 x2 x3
  refine leP_of_eq (ifBranches.eq_def T cfg _ _ _ _ _) (ifBranches.eq_def T cfg _ _ _ _ _) ?_
  (try simp only [])
  (repeat' leP_step) <;> (first | leD_ih ih | trace_state)

theorem leD_exprList_succ (n : Nat) (ih : AllLeD T cfg n) : ∀ x0 x1, LeP (exprList cfg (n + 1) x0 x1) (exprList cfg (n + 1 + 1) x0 x1) := by
  intro x0 x1
  refine leP_of_eq (exprList.eq_def cfg _ _ _) (exprList.eq_def cfg _ _ _) ?_
  (try simp only [])
  (repeat' leP_step) <;> (first | leD_ih ih | trace_state)

theorem leD_cycleArgs_succ (n : Nat) (ih : AllLeD T cfg n) : ∀ x0 x1, LeP (cycleArgs cfg (n + 1) x0 x1) (cycleArgs cfg (n + 1 + 1) x0 x1) := by
  intro x0 x1
  refine leP_of_eq (cycleArgs.eq_def cfg _ _ _) (cycleArgs.eq_def cfg _ _ _) ?_
  (try simp only [])
  (repeat' leP_step) <;> (first | leD_ih ih | trace_state)

theorem leD_filterTagArgs_succ (n : Nat) (ih : AllLeD T cfg n) : ∀ x0 x1, LeP (filterTagArgs cfg (n + 1) x0 x1) (filterTagArgs cfg (n + 1 + 1) x0 x1) := by
  intro x0 x1
  refine leP_of_eq (filterTagArgs.eq_def cfg _ _ _) (filterTagArgs.eq_def cfg _ _ _) ?_
  (try simp only [])
  (repeat' leP_step) <;> (first | leD_ih ih | trace_state)

theorem leD_importArgs_succ (n : Nat) (ih : AllLeD T cfg n) : ∀ x0 x1 x2, LeP (importArgs  (n + 1) x0 x1 x2) (importArgs  (n + 1 + 1) x0 x1 x2) := by
  intro x0 x1 x2
  refine leP_of_eq (importArgs.eq_def  _ _ _ _) (importArgs.eq_def  _ _ _ _) ?_
  (try simp only [])
  (repeat' leP_step) <;> (first | leD_ih ih | trace_state)

theorem leD_includePairs_succ (n : Nat) (ih : AllLeD T cfg n) : ∀ x0 x1, LeP (includePairs cfg (n + 1) x0 x1) (includePairs cfg (n + 1 + 1) x0 x1) := by
  intro x0 x1
  refine leP_of_eq (includePairs.eq_def cfg _ _ _) (includePairs.eq_def cfg _ _ _) ?_
  (try simp only [])
  (repeat' leP_step) <;> (first | leD_ih ih | trace_state)

theorem leD_macroParams_succ (n : Nat) (ih : AllLeD T cfg n) : ∀ x0 x1, LeP (macroParams cfg (n + 1) x0 x1) (macroParams cfg (n + 1 + 1) x0 x1) := by
  intro x0 x1
  refine leP_of_eq (macroParams.eq_def cfg _ _ _) (macroParams.eq_def cfg _ _ _) ?_
  (try simp only [])
  (repeat' leP_step) <;> (first | leD_ih ih | trace_state)

theorem leD_withPairs_succ (n : Nat) (ih : AllLeD T cfg n) : ∀ x0 x1 x2, LeP (withPairs cfg (n + 1) x0 x1 x2) (withPairs cfg (n + 1 + 1) x0 x1 x2) := by
  intro x0 x1 x2
  refine leP_of_eq (withPairs.eq_def cfg _ _ _ _) (withPairs.eq_def cfg _ _ _ _) ?_
  (try simp only [])
  (repeat' leP_step) <;> (first | leD_ih ih | trace_state)

theorem allLeD_succ (n : Nat) (ih : AllLeD T cfg n) : AllLeD T cfg (n + 1) where
  compileTpl := leD_compileTpl_succ T cfg n ih
  fromFile := leD_fromFile_succ T cfg n ih
  parseDocument := leD_parseDocument_succ T cfg n ih
  parseDocElement := leD_parseDocElement_succ T cfg n ih
  parseTag := leD_parseTag_succ T cfg n ih
  wrapUntil := leD_wrapUntil_succ T cfg n ih
  tagParser := leD_tagParser_succ T cfg n ih
  ifBranches := leD_ifBranches_succ T cfg n ih
  exprList := leD_exprList_succ T cfg n ih
  cycleArgs := leD_cycleArgs_succ T cfg n ih
  filterTagArgs := leD_filterTagArgs_succ T cfg n ih
  importArgs := leD_importArgs_succ T cfg n ih
  includePairs := leD_includePairs_succ T cfg n ih
  macroParams := leD_macroParams_succ T cfg n ih
  withPairs := leD_withPairs_succ T cfg n ih

/-- **More fuel never changes what the compiler answers.** -/
theorem allLeD (fuel : Nat) : AllLeD T cfg fuel := by
  induction fuel with
  | zero => exact allLeD_zero T cfg
  | succ n ih => exact allLeD_succ T cfg n ih

end doc

end Pongo

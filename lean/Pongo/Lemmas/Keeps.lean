/-
  Frame discipline of the interpreter: two predicates on computations and their combinators.

  `Keeps m`   : started with at least one execution context on the stack, `m` ends — normally or
                with an error — with a stack of the same height in which every context *below the
                current one* has the bindings it had, and it never fails with the model's `.panic`.
  `KeepsTop m`: the same, and the current context is unchanged as well (expressions, and everything
                that runs in a context of its own).

  "As it was" means identical: bindings, escaping mode, template chain and recursion counter.
-/
import Pongo.Model.Exec

namespace Pongo

/-- the whole context stack (kept as a function so that statements read "the stack is unchanged") -/
def sview (fs : List Frame) : List Frame := fs

/-- the state after running, whatever the outcome -/
def resState {α} : EStateM.Result XErr ES α → ES
  | .ok _ s => s
  | .error _ s => s

/-- the outcome is not a `.panic` error -/
def noPanic {α} : EStateM.Result XErr ES α → Prop
  | .ok _ _ => True
  | .error e _ => e.kind ≠ .panic

/-- the relation between the stack before and after: same height, same contexts below the top -/
def Below (σ σ' : ES) : Prop :=
  σ'.frames.length = σ.frames.length ∧ sview σ'.frames.tail = sview σ.frames.tail

/-- … and the same top -/
def Same (σ σ' : ES) : Prop := sview σ'.frames = sview σ.frames

theorem Below.refl (σ : ES) : Below σ σ := ⟨rfl, rfl⟩
theorem Same.refl (σ : ES) : Same σ σ := rfl
theorem Below.trans {a b c : ES} (h1 : Below a b) (h2 : Below b c) : Below a c :=
  ⟨h2.1.trans h1.1, h2.2.trans h1.2⟩
theorem Same.trans {a b c : ES} (h1 : Same a b) (h2 : Same b c) : Same a c := by
  unfold Same at *; rw [h2, h1]
theorem Same.below {a b : ES} (h : Same a b) : Below a b := by
  unfold Same sview at h
  exact ⟨by rw [h], by unfold sview; rw [h]⟩

theorem ne_of_below {σ σ' : ES} (h : Below σ σ') (hn : σ.frames ≠ []) : σ'.frames ≠ [] := by
  intro he
  have := h.1
  rw [he] at this
  exact hn (List.eq_nil_of_length_eq_zero this.symm)

def Keeps {α} (m : XM α) : Prop :=
  ∀ σ : ES, σ.frames ≠ [] → noPanic (m.run σ) ∧ Below σ (resState (m.run σ))

def KeepsTop {α} (m : XM α) : Prop :=
  ∀ σ : ES, σ.frames ≠ [] → noPanic (m.run σ) ∧ Same σ (resState (m.run σ))

/-- without assuming a context on the stack (the top-level entry points) -/
def KeepsAny {α} (m : XM α) : Prop :=
  ∀ σ : ES, noPanic (m.run σ) ∧ Same σ (resState (m.run σ))

theorem KeepsTop.toKeeps {α} {m : XM α} (h : KeepsTop m) : Keeps m :=
  fun σ hσ => ⟨(h σ hσ).1, (h σ hσ).2.below⟩

theorem KeepsAny.toTop {α} {m : XM α} (h : KeepsAny m) : KeepsTop m := fun σ _ => h σ

/-! ### generic combinators, stated once for a relation `R` -/

section generic
variable {R : ES → ES → Prop}

/-- `P R pre m`: from every state satisfying `pre`, `m` does not panic and relates the states by `R` -/
def Holds (R : ES → ES → Prop) (pre : ES → Prop) {α} (m : XM α) : Prop :=
  ∀ σ, pre σ → noPanic (m.run σ) ∧ R σ (resState (m.run σ))

theorem holds_pure (hr : ∀ s, R s s) (pre) {α} (a : α) : Holds R pre (pure a : XM α) := by
  intro σ _; simp [EStateM.run, pure, EStateM.pure, noPanic, resState, hr]

theorem holds_bind (ht : ∀ a b c, R a b → R b c → R a c) {pre : ES → Prop} (hp : ∀ a b, pre a → R a b → pre b)
    {α β} {m : XM α} {f : α → XM β} (hm : Holds R pre m) (hf : ∀ a, Holds R pre (f a)) : Holds R pre (m >>= f) := by
  intro σ hσ
  have h := hm σ hσ
  simp only [EStateM.run, bind, EStateM.bind] at h ⊢
  cases hr : m σ with
  | ok a σ' =>
    rw [hr] at h
    simp only [resState] at h
    have h2 := hf a σ' (hp _ _ hσ h.2)
    simp only [EStateM.run] at h2
    exact ⟨h2.1, ht _ _ _ h.2 h2.2⟩
  | error e σ' =>
    rw [hr] at h
    exact h

theorem holds_throw (hr : ∀ s, R s s) (pre) {α} (e : XErr) (hk : e.kind ≠ .panic) : Holds R pre (throw e : XM α) := by
  intro σ _
  simp [EStateM.run, throw, throwThe, MonadExceptOf.throw, EStateM.throw, noPanic, resState, hk, hr]

theorem holds_get (hr : ∀ s, R s s) (pre) : Holds R pre (get : XM ES) := by
  intro σ _
  simp [EStateM.run, get, getThe, MonadStateOf.get, EStateM.get, noPanic, resState, hr]

theorem holds_modify (pre) (f : ES → ES) (hf : ∀ s, R s (f s)) : Holds R pre (modify f : XM Unit) := by
  intro σ _
  simp [EStateM.run, modify, modifyGet, MonadStateOf.modifyGet, EStateM.modifyGet, noPanic, resState, hf]

theorem holds_tryCatch (ht : ∀ a b c, R a b → R b c → R a c) {pre : ES → Prop} (hp : ∀ a b, pre a → R a b → pre b)
    {α} {m : XM α} {h : XErr → XM α} (hm : Holds R pre m)
    (hh : ∀ e, e.kind ≠ .panic → Holds R pre (h e)) : Holds R pre (tryCatch m h) := by
  intro σ hσ
  have h1 := hm σ hσ
  simp only [EStateM.run, tryCatch, tryCatchThe, MonadExceptOf.tryCatch, EStateM.tryCatch, EStateM.Backtrackable.save,
    EStateM.Backtrackable.restore, EStateM.dummySave, EStateM.dummyRestore] at h1 ⊢
  cases hr : m σ with
  | ok a σ' =>
    rw [hr] at h1
    exact h1
  | error e σ' =>
    rw [hr] at h1
    simp only [noPanic, resState] at h1
    have h2 := hh e h1.1 σ' (hp _ _ hσ h1.2)
    simp only [EStateM.run] at h2
    exact ⟨h2.1, ht _ _ _ h1.2 h2.2⟩

end generic

def nonempty (σ : ES) : Prop := σ.frames ≠ []
def anyState (_ : ES) : Prop := True

theorem keeps_iff {α} (m : XM α) : Keeps m ↔ Holds Below nonempty m := Iff.rfl
theorem keepsTop_iff {α} (m : XM α) : KeepsTop m ↔ Holds Same nonempty m := Iff.rfl
theorem keepsAny_iff {α} (m : XM α) : KeepsAny m ↔ Holds Same anyState m :=
  ⟨fun h σ _ => h σ, fun h σ => h σ trivial⟩

theorem below_pre (a b : ES) (h : nonempty a) (r : Below a b) : nonempty b := ne_of_below r h
theorem same_pre (a b : ES) (h : nonempty a) (r : Same a b) : nonempty b := ne_of_below r.below h
theorem any_pre (a b : ES) (_ : anyState a) (_ : Same a b) : anyState b := trivial

/-! ### `Keeps` -/

theorem keeps_pure {α} (a : α) : Keeps (pure a : XM α) := holds_pure Below.refl _ a
theorem keeps_bind {α β} {m : XM α} {f : α → XM β} (hm : Keeps m) (hf : ∀ a, Keeps (f a)) : Keeps (m >>= f) :=
  holds_bind (R := Below) (pre := nonempty) (fun _ _ _ => Below.trans) below_pre hm hf
theorem keeps_throw {α} (e : XErr) (hk : e.kind ≠ .panic) : Keeps (throw e : XM α) := holds_throw Below.refl _ e hk
theorem keeps_xerr {α} (msg : String) (k : XKind) (hk : k ≠ .panic) : Keeps (xerr msg k : XM α) := keeps_throw _ hk
theorem keeps_get : Keeps (get : XM ES) := holds_get Below.refl _
theorem keeps_tryCatch {α} {m : XM α} {h : XErr → XM α} (hm : Keeps m)
    (hh : ∀ e, e.kind ≠ .panic → Keeps (h e)) : Keeps (tryCatch m h) :=
  holds_tryCatch (R := Below) (pre := nonempty) (fun _ _ _ => Below.trans) below_pre hm hh

/-! ### `KeepsTop` -/

theorem keepsTop_pure {α} (a : α) : KeepsTop (pure a : XM α) := holds_pure Same.refl _ a
theorem keepsTop_bind {α β} {m : XM α} {f : α → XM β} (hm : KeepsTop m) (hf : ∀ a, KeepsTop (f a)) : KeepsTop (m >>= f) :=
  holds_bind (R := Same) (pre := nonempty) (fun _ _ _ => Same.trans) same_pre hm hf
theorem keepsTop_throw {α} (e : XErr) (hk : e.kind ≠ .panic) : KeepsTop (throw e : XM α) := holds_throw Same.refl _ e hk
theorem keepsTop_xerr {α} (msg : String) (k : XKind) (hk : k ≠ .panic) : KeepsTop (xerr msg k : XM α) := keepsTop_throw _ hk
theorem keepsTop_get : KeepsTop (get : XM ES) := holds_get Same.refl _
theorem keepsTop_tryCatch {α} {m : XM α} {h : XErr → XM α} (hm : KeepsTop m)
    (hh : ∀ e, e.kind ≠ .panic → KeepsTop (h e)) : KeepsTop (tryCatch m h) :=
  holds_tryCatch (R := Same) (pre := nonempty) (fun _ _ _ => Same.trans) same_pre hm hh

/-- a state change that does not touch the observable part of any context -/
theorem keepsTop_modify (f : ES → ES) (hf : ∀ s, sview (f s).frames = sview s.frames) : KeepsTop (modify f : XM Unit) :=
  holds_modify _ f hf

theorem keepsTop_write (b : Bytes) : KeepsTop (write b) := by
  unfold write; exact keepsTop_modify _ (fun s => rfl)

theorem keepsTop_cur : KeepsTop cur := by
  intro σ hσ
  unfold cur
  cases hf : σ.frames with
  | nil => exact absurd hf hσ
  | cons f t =>
    simp [EStateM.run, bind, EStateM.bind, get, getThe, MonadStateOf.get, EStateM.get, hf, pure, EStateM.pure, noPanic, resState, Same]

theorem keepsTop_getFrame (id : Nat) : KeepsTop (getFrame id) := by
  intro σ _
  unfold getFrame
  cases hf : σ.frames.find? (·.id == id) with
  | none =>
    simp [EStateM.run, bind, EStateM.bind, get, getThe, MonadStateOf.get, EStateM.get, hf, xerr, throw, throwThe,
      MonadExceptOf.throw, EStateM.throw, noPanic, resState, Same]
  | some f =>
    simp [EStateM.run, bind, EStateM.bind, get, getThe, MonadStateOf.get, EStateM.get, hf, pure, EStateM.pure, noPanic, resState, Same]

/-- the recursion counter of context `fid`, one up / one down -/
def depthUp (fid : Nat) : XM Unit := modifyFrame fid fun fr => { fr with macroDepth := fr.macroDepth + 1 }
def depthDown (fid : Nat) : XM Unit := modifyFrame fid fun fr => { fr with macroDepth := fr.macroDepth - 1 }

theorem down_up (fid : Nat) (fs : List Frame) :
    (fs.map fun fr => if fr.id == fid then { fr with macroDepth := fr.macroDepth + 1 } else fr).map
      (fun fr => if fr.id == fid then { fr with macroDepth := fr.macroDepth - 1 } else fr) = fs := by
  induction fs with
  | nil => rfl
  | cons fr t ih =>
    simp only [List.map_cons, ih]
    congr 1
    by_cases h : (fr.id == fid) = true
    · simp [h]
    · simp [h]

/-- counting a call in and out again — around a body that leaves the stack alone, and whether the
    body returns or fails — leaves every context exactly as it was, its recursion counter too -/
theorem keepsTop_depthBracket {α} (fid : Nat) {m : XM α} (hm : KeepsTop m) :
    KeepsTop (depthUp fid >>= fun _ =>
      tryCatch (m >>= fun r => depthDown fid >>= fun _ => pure r) (fun e => depthDown fid >>= fun _ => throw e)) := by
  intro σ hσ
  simp only [depthUp, depthDown, modifyFrame, EStateM.run, bind, EStateM.bind, modify, modifyGet, MonadStateOf.modifyGet,
    EStateM.modifyGet, tryCatch, tryCatchThe, MonadExceptOf.tryCatch, EStateM.tryCatch, EStateM.Backtrackable.save,
    EStateM.Backtrackable.restore, EStateM.dummySave, EStateM.dummyRestore]
  have h1 := hm { σ with frames := σ.frames.map fun fr => if fr.id == fid then { fr with macroDepth := fr.macroDepth + 1 } else fr }
    (by intro he; exact hσ (by simpa using he))
  simp only [EStateM.run] at h1
  cases hr : m { σ with frames := σ.frames.map fun fr => if fr.id == fid then { fr with macroDepth := fr.macroDepth + 1 } else fr } with
  | ok a σ' =>
    rw [hr] at h1
    simp only [resState, Same, sview] at h1
    simp only [pure, EStateM.pure, noPanic, resState, Same, sview, true_and]
    rw [h1.2]; exact down_up fid σ.frames
  | error e σ' =>
    rw [hr] at h1
    simp only [noPanic, resState, Same, sview] at h1
    simp only [throw, throwThe, MonadExceptOf.throw, EStateM.throw, noPanic, resState, Same, sview]
    exact ⟨h1.1, by rw [h1.2]; exact down_up fid σ.frames⟩

/-- the guard's refusal: counted in, counted out, error -/
theorem keepsTop_depthRefuse {α} (fid : Nat) (msg : String) :
    KeepsTop (depthUp fid >>= fun _ => depthDown fid >>= fun _ => (xerr msg : XM α)) := by
  intro σ _
  simp only [depthUp, depthDown, modifyFrame, EStateM.run, bind, EStateM.bind, modify, modifyGet, MonadStateOf.modifyGet,
    EStateM.modifyGet, xerr, throw, throwThe, MonadExceptOf.throw, EStateM.throw, noPanic, resState, Same, sview]
  exact ⟨by decide, down_up fid σ.frames⟩

theorem keepsTop_liftStep {α} (r : Except String α) : KeepsTop (liftStep r) := by
  unfold liftStep
  split
  · exact keepsTop_pure _
  · exact keepsTop_xerr _ _ (by decide)

theorem keepsTop_buffered {m : XM Unit} (hm : KeepsTop m) : KeepsTop (buffered m) := by
  unfold buffered
  refine keepsTop_bind keepsTop_get fun st => ?_
  refine keepsTop_bind (keepsTop_modify _ (fun s => rfl)) fun _ => ?_
  refine keepsTop_tryCatch ?_ ?_
  · refine keepsTop_bind hm fun _ => ?_
    refine keepsTop_bind keepsTop_get fun st2 => ?_
    refine keepsTop_bind (keepsTop_modify _ (fun s => rfl)) fun _ => keepsTop_pure _
  · intro e he
    exact keepsTop_bind (keepsTop_modify _ (fun s => rfl)) fun _ => keepsTop_throw e he

/-! ### statements -/

theorem keeps_modify (f : ES → ES) (hf : ∀ s, Below s (f s)) : Keeps (modify f : XM Unit) := holds_modify _ f hf

/-- rebinding in the current context leaves everything below untouched -/
theorem keeps_modifyCur (f : Frame → Frame) : Keeps (modifyCur f) := by
  unfold modifyCur
  apply keeps_modify
  intro s
  cases h : s.frames <;> simp [Below, sview, h]

theorem keeps_buffered {m : XM Unit} (hm : Keeps m) : Keeps (buffered m) := by
  unfold buffered
  refine keeps_bind keeps_get fun st => ?_
  refine keeps_bind (keepsTop_modify _ (fun s => rfl)).toKeeps fun _ => ?_
  refine keeps_tryCatch ?_ ?_
  · refine keeps_bind hm fun _ => ?_
    refine keeps_bind keeps_get fun st2 => ?_
    refine keeps_bind (keepsTop_modify _ (fun s => rfl)).toKeeps fun _ => keeps_pure _
  · intro e he
    exact keeps_bind (keepsTop_modify _ (fun s => rfl)).toKeeps fun _ => keeps_throw e he

/-- the heart of scoping: push a context, run a body that respects everything below *its* top,
    pop — and the whole stack, including the context that was current, is as before -/
theorem withFrame_same {α} (fr : Frame) {m : XM α} (hm : Keeps m) (σ : ES) :
    noPanic ((withFrame fr m).run σ) ∧ Same σ (resState ((withFrame fr m).run σ)) := by
  unfold withFrame
  simp only [EStateM.run, bind, EStateM.bind, get, getThe, MonadStateOf.get, EStateM.get, modify, modifyGet,
    MonadStateOf.modifyGet, EStateM.modifyGet, tryCatch, tryCatchThe, MonadExceptOf.tryCatch, EStateM.tryCatch,
    EStateM.Backtrackable.save, EStateM.Backtrackable.restore, EStateM.dummySave, EStateM.dummyRestore]
  have h1 := hm { σ with frames := { fr with id := σ.nextFrame } :: σ.frames, nextFrame := σ.nextFrame + 1 } (by simp)
  simp only [EStateM.run] at h1
  cases hr : m { σ with frames := { fr with id := σ.nextFrame } :: σ.frames, nextFrame := σ.nextFrame + 1 } with
  | ok a σ' =>
    rw [hr] at h1
    simp only [resState, Below, List.tail_cons] at h1
    simp only [pure, EStateM.pure, noPanic, resState, Same, true_and]
    exact h1.2.2
  | error e σ' =>
    rw [hr] at h1
    simp only [noPanic, resState, Below, List.tail_cons] at h1
    simp only [throw, throwThe, MonadExceptOf.throw, EStateM.throw, noPanic, resState, Same]
    exact ⟨h1.1, h1.2.2⟩

theorem keepsTop_withFrame {α} (fr : Frame) {m : XM α} (hm : Keeps m) : KeepsTop (withFrame fr m) :=
  fun σ _ => withFrame_same fr hm σ

theorem keepsAny_withFrame {α} (fr : Frame) {m : XM α} (hm : Keeps m) : KeepsAny (withFrame fr m) :=
  fun σ => withFrame_same fr hm σ

/-! ### the entry points need no context -/

theorem keepsAny_pure {α} (a : α) : KeepsAny (pure a : XM α) := (keepsAny_iff _).2 (holds_pure Same.refl _ a)
theorem keepsAny_bind {α β} {m : XM α} {f : α → XM β} (hm : KeepsAny m) (hf : ∀ a, KeepsAny (f a)) : KeepsAny (m >>= f) :=
  (keepsAny_iff _).2 (holds_bind (R := Same) (pre := anyState) (fun _ _ _ => Same.trans) any_pre ((keepsAny_iff _).1 hm) (fun a => (keepsAny_iff _).1 (hf a)))
theorem keepsAny_throw {α} (e : XErr) (hk : e.kind ≠ .panic) : KeepsAny (throw e : XM α) :=
  (keepsAny_iff _).2 (holds_throw Same.refl _ e hk)
theorem keepsAny_xerr {α} (msg : String) (k : XKind) (hk : k ≠ .panic) : KeepsAny (xerr msg k : XM α) := keepsAny_throw _ hk
theorem keepsAny_get : KeepsAny (get : XM ES) := (keepsAny_iff _).2 (holds_get Same.refl _)
theorem keepsAny_modify (f : ES → ES) (hf : ∀ s, sview (f s).frames = sview s.frames) : KeepsAny (modify f : XM Unit) :=
  (keepsAny_iff _).2 (holds_modify _ f hf)
theorem keepsAny_write (b : Bytes) : KeepsAny (write b) := by
  unfold write; exact keepsAny_modify _ (fun s => rfl)
theorem keepsAny_tryCatch {α} {m : XM α} {h : XErr → XM α} (hm : KeepsAny m)
    (hh : ∀ e, e.kind ≠ .panic → KeepsAny (h e)) : KeepsAny (tryCatch m h) :=
  (keepsAny_iff _).2 (holds_tryCatch (R := Same) (pre := anyState) (fun _ _ _ => Same.trans) any_pre ((keepsAny_iff _).1 hm) (fun e he => (keepsAny_iff _).1 (hh e he)))

theorem keepsAny_buffered {m : XM Unit} (hm : KeepsAny m) : KeepsAny (buffered m) := by
  unfold buffered
  refine keepsAny_bind keepsAny_get fun st => ?_
  refine keepsAny_bind (keepsAny_modify _ (fun s => rfl)) fun _ => ?_
  refine keepsAny_tryCatch ?_ ?_
  · refine keepsAny_bind hm fun _ => ?_
    refine keepsAny_bind keepsAny_get fun st2 => ?_
    refine keepsAny_bind (keepsAny_modify _ (fun s => rfl)) fun _ => keepsAny_pure _
  · intro e he
    exact keepsAny_bind (keepsAny_modify _ (fun s => rfl)) fun _ => keepsAny_throw e he

attribute [irreducible] Keeps KeepsTop KeepsAny

end Pongo

set_option linter.unusedSimpArgs false
/-
  Byte strings.  Go strings are arbitrary byte sequences, so the model works on
  `List UInt8`.  Only core Lean is imported here (the driver links this file).
-/
namespace Pongo

abbrev Bytes := List UInt8

open Lean in
/-- `b!"text"`: byte-list literal expanded at elaboration time (so that `decide`
    and `simp` see an explicit list) -/
macro:max "b!" s:str : term => do
  let bytes := s.getString.toUTF8.toList
  let elems : Array (TSyntax `term) ← bytes.toArray.mapM fun c => `(($(quote c.toNat) : UInt8))
  `(([$elems,*] : List UInt8))

/-- ASCII literal → bytes (used for readability in the executable model only;
    tables that proofs `decide` over are written as explicit byte lists). -/
def b (s : String) : Bytes := s.toUTF8.toList

namespace Bytes

/-- `strings.HasPrefix s p` -/
def hasPrefix (s p : Bytes) : Bool := p.isPrefixOf s

/-- `strings.HasSuffix s p` -/
def hasSuffix (s p : Bytes) : Bool := p.isSuffixOf s

/-- `strings.Replace(s, old, new, -1)` for non-empty `old`: leftmost,
    non-overlapping.  For empty `old` the input is returned unchanged (the model
    never calls it that way; Go would interleave). -/
def replaceAll (old new : Bytes) : Bytes → Bytes
  | [] => []
  | c :: t =>
    if old = [] then c :: t
    else if old.isPrefixOf (c :: t) then
      new ++ replaceAll old new ((c :: t).drop old.length)
    else c :: replaceAll old new t
termination_by s => s.length
decreasing_by
  all_goals simp_wf
  · rename_i h1 h2
    cases old with
    | nil => exact absurd rfl h1
    | cons o os =>
      simp only [List.length_cons, List.drop_succ_cons, List.length_drop]
      omega

/-- first index at which `p` occurs in `s` (`strings.Index`), `none` if absent -/
def indexOf (p : Bytes) : Bytes → Option Nat
  | [] => if p = [] then some 0 else none
  | c :: t =>
    if p.isPrefixOf (c :: t) then some 0
    else (indexOf p t).map (· + 1)

/-- `strings.Contains` -/
def contains (s p : Bytes) : Bool := (indexOf p s).isSome

/-- `strings.TrimLeft(s, cutset)` for an ASCII cutset -/
def trimLeft (cut : Bytes) (s : Bytes) : Bytes := s.dropWhile (fun c => List.elem c cut)

/-- `strings.TrimRight(s, cutset)` for an ASCII cutset -/
def trimRight (cut : Bytes) (s : Bytes) : Bytes :=
  (s.reverse.dropWhile (fun c => List.elem c cut)).reverse

/-- `strings.Repeat(" ", n)` -/
def spaces (n : Nat) : Bytes := List.replicate n 0x20

/-- `strings.Split(s, sep)` for non-empty `sep` -/
def splitOn (sep : Bytes) (s : Bytes) : List Bytes :=
  go s [] s.length
where
  go : Bytes → Bytes → Nat → List Bytes
  | s, cur, 0 => [cur.reverse ++ s]
  | [], cur, _ => [cur.reverse]
  | c :: t, cur, fuel+1 =>
    if sep ≠ [] ∧ sep.isPrefixOf (c :: t) then
      cur.reverse :: go ((c :: t).drop sep.length) [] fuel
    else go t (c :: cur) fuel

/-- `strings.Join` -/
def join (sep : Bytes) : List Bytes → Bytes
  | [] => []
  | [x] => x
  | x :: xs => x ++ sep ++ join sep xs

def hexDigit (n : Nat) : UInt8 :=
  if n < 10 then UInt8.ofNat (48 + n) else UInt8.ofNat (87 + n)

def hexDigitUpper (n : Nat) : UInt8 :=
  if n < 10 then UInt8.ofNat (48 + n) else UInt8.ofNat (55 + n)

/-- lower-case hex encoding (wire protocol) -/
def toHex (s : Bytes) : String :=
  String.ofList (s.flatMap fun c => [Char.ofNat (hexDigit (c.toNat / 16)).toNat, Char.ofNat (hexDigit (c.toNat % 16)).toNat])

def hexVal (c : Char) : Option Nat :=
  if '0' ≤ c ∧ c ≤ '9' then some (c.toNat - 48)
  else if 'a' ≤ c ∧ c ≤ 'f' then some (c.toNat - 87)
  else if 'A' ≤ c ∧ c ≤ 'F' then some (c.toNat - 55)
  else none

def ofHexChars : List Char → Option Bytes
  | [] => some []
  | [_] => none
  | a :: c :: t => do
    let x ← hexVal a
    let y ← hexVal c
    let r ← ofHexChars t
    pure (UInt8.ofNat (x * 16 + y) :: r)

/-- decode the wire encoding; "-" denotes the empty string -/
def ofHex (s : String) : Option Bytes :=
  if s = "-" then some [] else ofHexChars s.toList

def decimal (n : Nat) : Bytes := (toString n).toUTF8.toList

end Bytes
end Pongo

/-
  Line-protocol driver: one request per line on stdin, one answer per line on
  stdout.  Imports only the core-Lean model (no Mathlib) so it links as an
  executable.  Protocol: DESIGN.md §3.2.
-/
import Pongo.Model.Lex
import Pongo.Gen.LexTables
import Pongo.Model.Wire

open Pongo

def typName : TokTyp → String
  | .html => "H" | .keyword => "K" | .ident => "I" | .str => "S" | .num => "N" | .sym => "Y"

def showTok (t : Tok) : String :=
  s!"{typName t.typ},{let h := Bytes.toHex t.val; if h = "" then "-" else h},{t.line},{t.col},{if t.trim then 1 else 0}"

def showLex : LexRes → String
  | .ok toks => "ok " ++ ";".intercalate (toks.map showTok)
  | .err e => s!"err {e.line} {e.col}"
  | .hang => "hang"

def handle (line : String) : String :=
  match line.splitOn " " with
  | ["lex", h] =>
    match Bytes.ofHex h with
    | some s => showLex (lex Gen.lexTables s)
    | none => "bad-hex"
  | "filter" :: rest => Wire.runFilter rest
  | "val" :: rest => Wire.runVal rest
  | "bans" :: rest => Wire.runBans rest
  | "cache" :: rest => Wire.runCache rest
  | "run" :: rest =>
    match Wire.decodeReq rest with
    | some r => Wire.runReq r
    | none => "bad-request"
  | "runa" :: rest =>      -- the same under `SetAutoescape(false)`
    match Wire.decodeReq rest with
    | some r => Wire.runReq { r with autoescape := false }
    | none => "bad-request"
  | _ => "bad-op"

partial def loop (i o : IO.FS.Stream) : IO Unit := do
  let line ← i.getLine
  if line.isEmpty then return ()
  let line := if line.endsWith "\n" then line.dropRight 1 else line
  o.putStrLn (handle line)
  loop i o

def main : IO Unit := do
  let i ← IO.getStdin
  let o ← IO.getStdout
  loop i o
  o.flush

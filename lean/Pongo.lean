import Pongo.Bytes
import Pongo.Model.Lex
import Pongo.Gen.LexTables

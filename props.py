# Per-property configuration of ./check: which correspondence/oracle suites
# decide the dynamic side, and what is assumed.  The theorem list is read from
# lean/Pongo/Props/<id>.lean itself (every `theorem` there is an obligation).

LEX_TB = ["lexer modelled byte-wise instead of rune-wise (equivalence argued in Model/Lex.lean, checked by the lex suite over an alphabet with multi-byte and invalid UTF-8 bytes)"]

PROPS = {
    "C03": {
        "suites": [{"name": "c03-routes", "proj": ["ban"]}, {"name": "c03-hist", "proj": ["hist", "driver"]}],
        "trusted_base": ["tools/extract's ban-site analysis (which functions look a tag/filter up by a non-constant name, and whether the function, all its callers, or the node's parser consult the ban list)", "whole-tree soundness (no banned name anywhere in a compiled tree incl. sub-templates) is decided by the route x file-composition suite, not yet by one theorem"],
        "assumptions": ["every registered tag and filter (enumerated through the VerifRegistered* hooks) is used as ban target on every syntactic and file-composition route; probe filter/tag count invocations"],
    },
    "C04": {
        "suites": [{"name": "c04-hist", "proj": ["history"]}],
        "trusted_base": ["tools/extract's effect analysis: own CHA call graph from the Execute* entry points (interface methods -> every implementer, FilterFunction/TagParser values -> every function of that type, closures with their enclosing function, reflective entry points Super/String/Value.*), stopped at newTemplate (compilation builds fresh objects); stores classified by the static type of the object written", "aliasing through local variables is not tracked"],
        "assumptions": ["histories of 2-5 executions with equal/different/failing contexts on one compiled template, all four whitespace option settings, compared with a fresh compile"],
    },
    "C05": {
        "suites": [{"name": "c05-race", "proj": ["race"], "race": True}],
        "trusted_base": ["Go memory model, scheduler and sync.Mutex (not modelled)", "the race detector (supports the search, is not the proof)", "tools/extract's effect and lock analysis"],
        "assumptions": ["model-level proof; partial for the runtime: interleaving semantics over atomic steps, effect table extracted from the source"],
    },
    "C19": {
        "suites": [{"name": "c19-chains", "proj": ["chain", "class", "output", "driver"]}],
        "trusted_base": ["filters outside the model (date, stringformat, urlize*, title, linebreaks, random, phone2numeric, removetags, truncate*_html) are not chained; the direct oracle (template output = composition of public ApplyFilter calls) needs no model"],
        "assumptions": ["filter names come from the VerifRegisteredFilters hook, so a newly registered filter is exercised at once"],
    },
    "C20": {
        "suites": [{"name": "c20-hist", "proj": ["cache", "driver"]}, {"name": "c20-conc", "proj": ["race"], "race": True}],
        "trusted_base": ["sync.Mutex semantics and the Go memory model (each FromCache/CleanCache call is taken as one atomic step, justified by the regenerated lock-discipline fact)", "harness loader's Abs = Go's path package, modelled in Lean (Path.clean/dir/join)"],
        "assumptions": ["Debug is toggled only between concurrent phases (documented as caller-synchronised)"],
    },
    "C06": {
        "suites": [
            {"name": "lex", "proj": ["tokens", "panic"]},
            {"name": "c06-render", "proj": ["render"]},
        ],
        "trusted_base": LEX_TB + ["parser/executor for HTML nodes not yet inside the Lean model: render-level claims are decided by the direct oracles of c06-render"],
        "assumptions": ["theorems are about the Lean lexer model instantiated at tables regenerated from lexer.go; the model is tied to the code by the lex correspondence suite (token streams on all short strings over the lexer alphabet)"],
    },
    "C17": {
        "suites": [{"name": "c17-str", "proj": ["filter"]}],
        "trusted_base": ["url.QueryEscape re-implemented in the model (compared per byte and on all BMP runes)", "unicode/utf8 decoding re-implemented in the model (Utf8.decode)", "Go regexp: striptags' pattern re-implemented as a matcher; removetags judged by a direct oracle only"],
        "assumptions": ["filters are modelled as byte-string functions and compared with ApplyFilter on every BMP rune (stride in quick), all single bytes, astral runes, all pairs/triples over the special characters and random strings"],
    },
    "C18": {
        "suites": [{"name": "c18-win", "proj": ["filter"]}],
        "trusted_base": ["Lean Float (IEEE binary64) for float results; exact %f/%.nf formatter written on Float.toBits", "strconv.ParseFloat modelled for plain decimals only", "strings.Fields/ToUpper/ToLower modelled for ASCII (non-ASCII inputs answered 'unsupported' and not compared)", "date/stringformat/title/linebreaks/urlize*/random/phone2numeric not modelled"],
        "assumptions": ["exhaustive integer windows per filter (see rule) plus random cases, compared with the Lean model; Python-slice, padding-shape, truncatechars, get_digit, floatformat and exact-rational widthratio references run as model-free oracles"],
    },
    "C07": {
        "suites": [{"name": "c07-expr", "proj": ["semantics", "class", "output", "driver"]}],
        "trusted_base": ["Lean Float for float arithmetic (kernel-opaque: float results are equal because model and reference apply the same operation)", "math.Pow compared only where exact", "the parser side of the statement (tree -> node) is tied by correspondence; parse_pp is not yet a theorem"],
        "assumptions": ["every generated tree inside the fragment is rendered through {{ e }} and {% if e %} and compared with an independent Go evaluator written from the property's wording and with the Lean model"],
    },
    "C09": {
        "suites": [{"name": "c09-ctl", "proj": ["reference", "class", "output", "driver"]}],
        "trusted_base": ["sort.Sort is modelled as a stable insertion sort (generated lists are homogeneous, so equal elements are indistinguishable)", "Go map iteration order is outside the model: maps are iterated sorted or have one key"],
        "assumptions": ["every render uses a freshly compiled template (C04 is separate)"],
    },
    "C10": {
        "suites": [{"name": "c10-chains", "proj": ["reference", "class", "output", "driver"]}],
        "trusted_base": ["the walk of tagBlockNode.Execute / Super over the whole interpreter is tied to the model by correspondence; theorems cover the resolution functions (definition lookup, Super indexing, chain shape)"],
        "assumptions": ["chains served from an in-memory loader; every template of each chain is rendered"],
    },
    "C11": {
        "suites": [{"name": "c11-trees", "proj": ["loaders", "fetchlog", "class", "output", "driver"]}],
        "trusted_base": ["the harness loader's Abs (Go's path package) is modelled in Lean (Path.clean/dir/join); LocalFilesystemLoader/SandboxedFilesystemLoader/HttpFilesystemLoader touch the OS and are not modelled", "tools/extract's OS-access listing (selector uses of os/ioutil/fs/http outside template_loader.go)", "on compile errors the model does not keep the Get log of the failed compilation: logs are compared on successful renders"],
        "assumptions": ["a canary file on the real file system under a name the virtual tree references but no loader serves"],
    },
    "C12": {
        "suites": [{"name": "c12-scope", "proj": ["reference", "class", "output", "driver"]}],
        "trusted_base": ["the whole-interpreter frame invariant (a construct leaves the frames below its own untouched) is decided by the reference-environment suite; the theorems cover the frame combinator, set, child contexts, key validation and the regenerated effect table"],
        "assumptions": ["caller Context and set Globals are deep-compared before/after every execution of generated programs"],
    },
    "C13": {
        "suites": [{"name": "c13-bind", "proj": ["binding", "class", "output", "driver"]}, {"name": "c13-rec", "proj": ["recursion"]}],
        "trusted_base": ["Go stack growth is not modelled: 'instead of exhausting the stack' is observed by running runaway recursion in an isolated worker process", "macro closures capture their defining context by reference; the model keeps contexts in numbered frames"],
        "assumptions": ["imported macros whose body refers to names of the defining file (incl. their own name under an alias) are outside the 'behaves like local' clause"],
    },
    "C14": {
        "suites": [{"name": "c14-fail", "proj": ["variants"]}],
        "trusted_base": ["bytes.Buffer / io.Writer plumbing is modelled as an append-only byte list with save/restore for buffering constructs", "the prefix property of the unbuffered variant (output only grows) is decided by the fault-injection suite, not yet by a theorem over the whole interpreter"],
        "assumptions": ["fault injection at every output position through a context-controlled zero divisor; writer failing at the first call"],
    },
    "C15": {
        "suites": [{"name": "c15-ws", "proj": ["whitespace", "class", "output", "driver"]},
                   {"name": "c15-spaceless", "proj": ["whitespace", "class", "output", "driver"]}],
        "trusted_base": ["Go's regexp engine (leftmost-first, lazy quantifiers, '.' not matching newline) is modelled by spacelessMatchAt/lazyTagEnds and tied by the differential suite and a third, declarative hand-stripping reference in the harness", "strings.TrimLeft/TrimRight are modelled for ASCII cutsets on bytes", "that the model matcher equals the declarative 'between two tags' characterisation is decided by the suite, not by a theorem"],
        "assumptions": ["whitespace in literal text is drawn from space, tab, CR, LF (VT/FF additionally inside spaceless bodies)"],
    },
    "C16": {
        "suites": [
            {"name": "lex", "proj": ["positions", "panic"]},
        ],
        "trusted_base": LEX_TB,
        "assumptions": ["positions compared for every token and lexer error on all short strings over the lexer alphabet"],
    },
}

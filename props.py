# Per-property configuration of ./check: which correspondence/oracle suites
# decide the dynamic side, and what is assumed.  The theorem list is read from
# lean/Pongo/Props/<id>.lean itself (every `theorem` there is an obligation).

LEX_TB = ["lexer modelled byte-wise instead of rune-wise (equivalence argued in Model/Lex.lean, checked by the lex suite over an alphabet with multi-byte and invalid UTF-8 bytes)"]

PROPS = {
    "C06": {
        "suites": [
            {"name": "lex", "proj": ["tokens", "panic"]},
            {"name": "c06-render", "proj": ["render"]},
        ],
        "trusted_base": LEX_TB + ["parser/executor for HTML nodes not yet inside the Lean model: render-level claims are decided by the direct oracles of c06-render"],
        "assumptions": ["theorems are about the Lean lexer model instantiated at tables regenerated from lexer.go; the model is tied to the code by the lex correspondence suite (token streams on all short strings over the lexer alphabet)"],
    },
    "C16": {
        "suites": [
            {"name": "lex", "proj": ["positions", "panic"]},
        ],
        "trusted_base": LEX_TB,
        "assumptions": ["positions compared for every token and lexer error on all short strings over the lexer alphabet"],
    },
}
